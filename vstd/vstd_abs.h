// vstd_abs.h - *abstract* stand-ins for the libstdc++ types that control-flow-only units
// touch.  std::string keeps only "is it empty" (contents are irrelevant to those units and
// comparisons are nondeterministic); std::vector is an inline array of at most
// VSTD_VEC_CAP elements whose iterators are raw pointers; std::ostream is a sink.
// Trusted: listed in every evidence file that uses it.
#ifndef VSTD_ABS_H
#define VSTD_ABS_H
#ifndef VSTD_VEC_CAP
#define VSTD_VEC_CAP 4
#endif
extern "C" int nondet_int(void);
extern "C" void* malloc(__CPROVER_size_t);
typedef __CPROVER_size_t size_t;
namespace std
{
struct string
{
  bool e_;
  string() : e_(true) {}
  string(const char* s) : e_(s[0] == 0) {}
  string(const string& o) : e_(o.e_) {}
  string& operator=(const string& o) {e_ = o.e_; return *this;}
  string& operator=(const char* s) {e_ = (s[0] == 0); return *this;}
  bool empty() const {return e_;}
  const char* c_str() const {return e_ ? "" : "x";}
  static string nondet() {string s; s.e_ = nondet_int() != 0; return s;}
};
inline bool operator==(const string& a, const string& b)
{ if (a.e_ != b.e_) return false; if (a.e_) return true; return nondet_int() != 0; }
inline bool operator!=(const string& a, const string& b) {return !(a == b);}

template<class T> struct vector
{
  typedef T* iterator;
  typedef const T* const_iterator;
  T b_[VSTD_VEC_CAP];
  size_t n_;
  vector() : n_(0) {}
  bool empty() const {return n_ == 0;}
  size_t size() const {return n_;}
  iterator begin() {return b_;}
  iterator end() {return b_ + n_;}
  const_iterator begin() const {return b_;}
  const_iterator end() const {return b_ + n_;}
  void clear() {n_ = 0;}
  void push_back(const T& t) {__CPROVER_assume(n_ < VSTD_VEC_CAP); b_[n_] = t; n_ = n_ + 1;}
  // environment hook: any size within capacity (element values stay unconstrained)
  void havoc() {size_t k = nondet_int(); __CPROVER_assume(k <= VSTD_VEC_CAP); n_ = k;}
};

struct ostream
{
  ostream& operator<<(const char*) {return *this;}
  ostream& operator<<(const string&) {return *this;}
  ostream& operator<<(int) {return *this;}
  ostream& operator<<(unsigned) {return *this;}
  ostream& operator<<(unsigned long) {return *this;}
  ostream& operator<<(long) {return *this;}
  ostream& operator<<(char) {return *this;}
};
ostream cout, cerr;
}
#endif
