// Helpers for native replay drivers (g++ only; never seen by CBMC).
#ifndef VERIF_REPLAY_UTIL_H
#define VERIF_REPLAY_UTIL_H
#include <cstdio>
#include <cstdlib>
#include <cstring>
#include <string>
#include <map>

struct replay_args
{
  std::string harness;
  std::map<std::string, std::string> kv;
  replay_args(int argc, char** argv)
  {
    if (argc > 1) harness = argv[1];
    for (int i = 2; i < argc; ++i)
      {
	const char* eq = strchr(argv[i], '=');
	if (!eq) continue;
	kv[std::string(argv[i], eq - argv[i])] = std::string(eq + 1);
      }
  }
  bool has(const char* k) const {return kv.find(k) != kv.end();}
  // CBMC prints values as C literals: 12, 12u, 12ul, -3, TRUE/FALSE, 'a', 0x..
  unsigned long long u(const char* k, unsigned long long dflt = 0) const
  {
    std::map<std::string, std::string>::const_iterator i = kv.find(k);
    if (i == kv.end()) return dflt;
    const std::string& s = i->second;
    if (s == "TRUE" || s == "true") return 1;
    if (s == "FALSE" || s == "false") return 0;
    if (s.size() >= 3 && s[0] == '\'') return (unsigned char) s[1];
    return strtoull(s.c_str(), 0, 0);
  }
  long long i(const char* k, long long dflt = 0) const
  {
    std::map<std::string, std::string>::const_iterator it = kv.find(k);
    if (it == kv.end()) return dflt;
    const std::string& s = it->second;
    if (s == "TRUE" || s == "true") return 1;
    if (s == "FALSE" || s == "false") return 0;
    if (s.size() >= 3 && s[0] == '\'') return (signed char) s[1];
    return strtoll(s.c_str(), 0, 0);
  }
};

#define REPLAY_EXPECT(cond, ...) \
  do { if (!(cond)) { printf("REPLAY-CONFIRMED: postcondition `%s` is false: ", #cond); \
       printf(__VA_ARGS__); printf("\n"); return 1; } } while (0)
#endif
