// vstd_string.h - *concrete, bounded* stand-in for std::string (and a small std::vector) for the
// units whose properties depend on string contents.  A string holds at most VSTD_STR_CAP
// characters; every loop below is bounded by that capacity, so harnesses using it are run with
// --unwind VSTD_STR_CAP+2 and are reported as *bounded* (never as proofs).
// Semantics follow ISO C++ [string.ops]; out_of_range throws are __CPROVER_assert(false).
// The same header compiles natively (g++) for replay: see VERIF_NATIVE.
#ifndef VSTD_STRING_H
#define VSTD_STRING_H
#ifndef VSTD_STR_CAP
#define VSTD_STR_CAP 6
#endif
#ifndef VSTD_VEC_CAP
#define VSTD_VEC_CAP 4
#endif
#ifdef VERIF_NATIVE
#include <cstdlib>
#include <cstdio>
#define __CPROVER_assert(c, m) do { if (!(c)) { printf("REPLAY-CONFIRMED: %s\n", m); exit(1); } } while (0)
#define __CPROVER_assume(c) do { if (!(c)) { printf("REPLAY: input outside the bounded model (%s)\n", #c); exit(0); } } while (0)
typedef unsigned long vstd_size_t;
#else
typedef __CPROVER_size_t vstd_size_t;
#endif
// length of a C string; a plain global function so that its loop can be given its own bound
// (--unwindset vstd_cstrlen.0:N): the callers pass string literals of up to ~20 characters
extern "C" { static vstd_size_t vstd_cstrlen(const char* s) {vstd_size_t k = 0; while (s[k] != 0) k = k + 1; return k;} }
namespace vstd_ns
{
typedef vstd_size_t size_t;
struct string
{
  typedef vstd_size_t size_type;
  typedef char* iterator;
  typedef const char* const_iterator;
  static const size_type npos = (size_type) -1;
  char b_[VSTD_STR_CAP + 1];
  size_type n_;

  string() : n_(0) {b_[0] = 0;}
  string(const char* s) : n_(0)
  {
    while (s[n_] != 0) { __CPROVER_assume(n_ < VSTD_STR_CAP); b_[n_] = s[n_]; n_ = n_ + 1; }
    b_[n_] = 0;
  }
  string(const string& o) : n_(o.n_)
  { for (size_type i = 0; i <= o.n_; ++i) b_[i] = o.b_[i]; }
  string& operator=(const string& o)
  { for (size_type i = 0; i <= o.n_; ++i) b_[i] = o.b_[i]; n_ = o.n_; return *this; }
  string& operator=(const char* s) { string t(s); return *this = t; }

  size_type size() const {return n_;}
  size_type length() const {return n_;}
  bool empty() const {return n_ == 0;}
  void clear() {n_ = 0; b_[0] = 0;}
  const char* c_str() const {return b_;}
  const char* data() const {return b_;}
  iterator begin() {return b_;}
  iterator end() {return b_ + n_;}
  const_iterator begin() const {return b_;}
  const_iterator end() const {return b_ + n_;}
  // operator[](size()) is the terminating NUL, anything beyond is undefined behaviour
  const char& operator[](size_type i) const { __CPROVER_assert(i <= n_, "std::string::operator[] index within [0, size()]"); return b_[i]; }
  char& operator[](size_type i) { __CPROVER_assert(i <= n_, "std::string::operator[] index within [0, size()]"); return b_[i]; }
  const char& at(size_type i) const { __CPROVER_assert(i < n_, "std::string::at throws out_of_range"); return b_[i]; }
  void push_back(char c) { __CPROVER_assume(n_ < VSTD_STR_CAP); b_[n_] = c; n_ = n_ + 1; b_[n_] = 0; }
  string& operator+=(char c) {push_back(c); return *this;}
  string& operator+=(const string& o) { for (size_type i = 0; i < o.n_; ++i) push_back(o.b_[i]); return *this; }
  string& operator+=(const char* s) { string t(s); return *this += t; }
  string& append(const string& o) {return *this += o;}

  string substr(size_type pos = 0, size_type len = npos) const
  {
    __CPROVER_assert(pos <= n_, "std::string::substr throws out_of_range");
    string r;
    size_type rlen = n_ - pos;
    if (len < rlen) rlen = len;
    for (size_type i = 0; i < rlen; ++i) r.b_[i] = b_[pos + i];
    r.n_ = rlen; r.b_[rlen] = 0;
    return r;
  }
  // compare(pos1, n1, data2, n2): the core of every compare overload
  int compare_raw(size_type pos1, size_type n1, const char* d2, size_type n2) const
  {
    __CPROVER_assert(pos1 <= n_, "std::string::compare throws out_of_range");
    size_type l1 = n_ - pos1;
    if (n1 < l1) l1 = n1;
    size_type m = l1 < n2 ? l1 : n2;
    for (size_type i = 0; i < m; ++i)
      {
	unsigned char a = (unsigned char) b_[pos1 + i], b = (unsigned char) d2[i];
	if (a != b) return a < b ? -1 : 1;
      }
    if (l1 < n2) return -1;
    if (l1 > n2) return 1;
    return 0;
  }
  int compare(const string& o) const {return compare_raw(0, n_, o.b_, o.n_);}
  int compare(size_type pos, size_type len, const string& o) const {return compare_raw(pos, len, o.b_, o.n_);}
  int compare(size_type pos, size_type len, const string& o, size_type pos2, size_type len2) const
  {
    __CPROVER_assert(pos2 <= o.n_, "std::string::compare throws out_of_range");
    size_type l2 = o.n_ - pos2;
    if (len2 < l2) l2 = len2;
    return compare_raw(pos, len, o.b_ + pos2, l2);
  }
  int compare(size_type pos, size_type len, const char* s) const
  {
    return compare_raw(pos, len, s, vstd_cstrlen(s));
  }
  size_type find(const char* s, size_type pos = 0) const
  {
    size_type k = vstd_cstrlen(s);
    if (k > n_) return npos;
    for (size_type i = pos; i + k <= n_; ++i)
      {
	bool eq = true;
	for (size_type j = 0; j < k; ++j) if (b_[i + j] != s[j]) {eq = false; break;}
	if (eq) return i;
      }
    return npos;
  }
  size_type find_first_of(const string& chars, size_type pos = 0) const
  {
    for (size_type i = pos; i < n_; ++i)
      for (size_type j = 0; j < chars.n_; ++j)
	if (b_[i] == chars.b_[j]) return i;
    return npos;
  }
  size_type find_first_of(const char* chars, size_type pos = 0) const {string c(chars); return find_first_of(c, pos);}
  bool operator==(const string& o) const {return compare(o) == 0;}
  bool operator!=(const string& o) const {return compare(o) != 0;}
  bool operator<(const string& o) const {return compare(o) < 0;}
  bool operator==(const char* s) const {string t(s); return compare(t) == 0;}
};

template<class T> struct vector
{
  typedef T* iterator;
  typedef const T* const_iterator;
  T b_[VSTD_VEC_CAP];
  vstd_size_t n_;
  vector() : n_(0) {}
  bool empty() const {return n_ == 0;}
  vstd_size_t size() const {return n_;}
  void push_back(const T& t) { __CPROVER_assume(n_ < VSTD_VEC_CAP); b_[n_] = t; n_ = n_ + 1; }
  T& operator[](vstd_size_t i) { __CPROVER_assert(i < n_, "std::vector::operator[] index within [0, size())"); return b_[i]; }
  const T& operator[](vstd_size_t i) const { __CPROVER_assert(i < n_, "std::vector::operator[] index within [0, size())"); return b_[i]; }
  iterator begin() {return b_;}
  iterator end() {return b_ + n_;}
  const_iterator begin() const {return b_;}
  const_iterator end() const {return b_ + n_;}
  void clear() {n_ = 0;}
  T& back() { __CPROVER_assert(n_ > 0, "std::vector::back() on an empty vector"); return b_[n_ > 0 ? n_ - 1 : 0]; }
  const T& back() const { __CPROVER_assert(n_ > 0, "std::vector::back() on an empty vector"); return b_[n_ > 0 ? n_ - 1 : 0]; }
  void pop_back() { __CPROVER_assert(n_ > 0, "std::vector::pop_back() on an empty vector"); if (n_ > 0) n_ = n_ - 1; }
};
}
// the pieces of <algorithm>/<string> a hand-written comparison is likely to reach for
#ifndef VERIF_NATIVE
namespace vstd_ns
{
template<class T> inline const T& min(const T& a, const T& b) {if (b < a) return b; return a;}
template<class T> inline const T& max(const T& a, const T& b) {if (a < b) return b; return a;}
// primary template only (the front end loses the members of an explicit specialisation); used for char
template<class C> struct char_traits
{
  // [char.traits.specializations.char]: compares as unsigned char
  static int compare(const C* a, const C* b, vstd_size_t n)
  {
    for (vstd_size_t i = 0; i < n; ++i)
      {
	if ((unsigned char) a[i] < (unsigned char) b[i]) return -1;
	if ((unsigned char) a[i] > (unsigned char) b[i]) return 1;
      }
    return 0;
  }
  static vstd_size_t length(const C* s) {return vstd_cstrlen(s);}
};
}
// CBMC's front end cannot call a static member function of a class template (lookup failure): units rewrite
// std::char_traits<char>::compare( to this plain function (rule R-char-traits, like R-numeric-limits)
inline int vstd_char_traits_compare(const char* a, const char* b, vstd_size_t n)
{
  for (vstd_size_t i = 0; i < n; ++i)
    {
      if ((unsigned char) a[i] < (unsigned char) b[i]) return -1;
      if ((unsigned char) a[i] > (unsigned char) b[i]) return 1;
    }
  return 0;
}
namespace std { using vstd_ns::min; using vstd_ns::max; using vstd_ns::char_traits; }
#endif
namespace std { using vstd_ns::string; using vstd_ns::vector; typedef vstd_size_t size_t; }
// <cctype> subset ("C" locale)
inline int isspace(int c) {return c == ' ' || (c >= 9 && c <= 13);}
inline int isascii(int c) {return c >= 0 && c <= 127;}
inline int isalnum(int c) {return (c >= '0' && c <= '9') || (c >= 'a' && c <= 'z') || (c >= 'A' && c <= 'Z');}
#endif
