// vstd_vec.h - bounded stand-in for std::vector<T>: inline storage (no heap, so no pointer case
// splits in the formula), element type must be default-constructible.  Capacity is VSTD_VCAP
// elements (VSTD_VCAP_INT for vector<int>); exceeding it is a *model* obligation ("model capacity
// ..."), so a harness that passes has shown the bound suffices.  Only the members the extracted text
// uses are provided; every index is an obligation (libstdc++ has undefined behaviour there).
#ifndef VSTD_VEC_H
#define VSTD_VEC_H
#ifndef VSTD_VCAP
#define VSTD_VCAP 8
#endif
#ifndef VSTD_VCAP_INT
#define VSTD_VCAP_INT VSTD_VCAP
#endif
typedef __CPROVER_size_t vstd_vsize_t;
template<class T> struct vstd_cap { enum {value = VSTD_VCAP}; };
template<> struct vstd_cap<int> { enum {value = VSTD_VCAP_INT}; };
namespace std
{
template<class T> struct vector
{
  typedef T value_type; typedef T& reference; typedef const T& const_reference;
  typedef T* iterator; typedef const T* const_iterator;
  typedef vstd_vsize_t size_type;
  T b_[vstd_cap<T>::value];
  size_type n_;
  vector() : n_(0) {}
  // fill constructor: loop-free.  __CPROVER_array_set fills the whole *object* b_ lives in, i.e. also
  // n_ and any enclosing object's members constructed before this vector - so n_ is set afterwards,
  // and a class embedding a vector built this way must declare it as its first member
  // (d_path_vec after R-compose-base does).
  vector(size_type n, const T& v)
  { __CPROVER_assert(n <= vstd_cap<T>::value, "model capacity of std::vector suffices"); __CPROVER_array_set(b_, v); n_ = n; }
  vector(const vector& o) : n_(o.n_)
  { for (size_type i = 0; i < o.n_; ++i) b_[i] = o.b_[i]; }
  vector& operator=(const vector& o)
  { for (size_type i = 0; i < o.n_; ++i) b_[i] = o.b_[i]; n_ = o.n_; return *this; }
  bool empty() const {return n_ == 0;}
  size_type size() const {return n_;}
  void clear() {n_ = 0;}
  iterator begin() {return &b_[0];}
  iterator end() {return &b_[0] + n_;}
  // the front end drops the const of `const T*` for a template parameter T: cast explicitly
  const T* begin() const {return const_cast<T*>(&b_[0]);}
  const T* end() const {return const_cast<T*>(&b_[0]) + n_;}
  void push_back(const T& t)
  {
    __CPROVER_assert(n_ < vstd_cap<T>::value, "model capacity of std::vector suffices");
    // case split on the slot: T::operator= through a `this` that points at an array element with a
    // symbolic index loses the write in CBMC 6.11 (observed); with a concrete k it does not
    for (size_type k = 0; k < vstd_cap<T>::value; ++k)
      if (k == n_) b_[k] = t;
    n_ = n_ + 1;
  }
  T& operator[](size_type i) { __CPROVER_assert(i < n_, "std::vector::operator[] index within [0, size())"); return b_[i]; }
  const T& operator[](size_type i) const { __CPROVER_assert(i < n_, "std::vector::operator[] index within [0, size())"); return b_[i]; }
  T& at(size_type i) { __CPROVER_assert(i < n_, "std::vector::at throws out_of_range"); return b_[i]; }
  const T& at(size_type i) const { __CPROVER_assert(i < n_, "std::vector::at throws out_of_range"); return b_[i]; }
  // range insert: the extracted text only ever inserts at end() (edit_script::append, lcs.insert(lcs.end(),..));
  // edit_script::prepend (insert at begin()) is not called on any verified path
  void insert(T* pos, const T* f, const T* l)
  {
    __CPROVER_assert(pos == &b_[0] + n_, "model: std::vector::insert is only modelled at end()");
    for (const T* i = f; i != l; ++i) push_back(*i);
  }
};
}
#endif
