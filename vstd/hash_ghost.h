/* ghost ELF model for the hash-table lookup units (scalars only, shared by C and C++ sides) */
#ifndef HASH_GHOST_H
#define HASH_GHOST_H
#ifdef __cplusplus
extern "C" {
#endif
extern int gh_lc_phase;              /* loop rule: 0 base case, otherwise step + exit */
extern void* gh_ht_buf;              /* content of the hash section (d_buf), gh_ht_size bytes */
extern unsigned long gh_ht_size;
extern unsigned long gh_hash;        /* what elf_hash / elf_gnu_hash answers for the queried name */
extern unsigned long gh_w, gh_v;     /* two watched symbol indexes */
extern int gh_w_matches;             /* the name of symbol gh_w equals the queried name */
extern unsigned long gh_calls;       /* number of gelf_getsym calls */
extern int gh_w_visited, gh_w_getsym_ok, gh_w_name_ok, gh_v_visited;
extern int gh_w_supported;           /* type and binding of symbol gh_w are ones the library can represent */
extern unsigned long gh_w_visit_no;  /* gh_calls at the latest visit of gh_w */
extern unsigned long gh_cur_idx;     /* index of the latest gelf_getsym call */
extern unsigned long gh_created, gh_pushed, gh_w_created;
extern unsigned long gh_first; extern int gh_first_set;   /* head of the bucket of the queried name */
extern unsigned long gh_exit_i; extern int gh_exit_break;   /* GNU walk: one past the last examined index; left by 'break' */
extern int gh_env_failed;            /* some libelf call failed (corrupted file) */
extern unsigned long gh_symtab_size, gh_symtab_entsize;
extern unsigned long gh_ht_index;    /* section index of the hash table */
extern int gh_elf_class;             /* 1 = ELFCLASS32, 2 = ELFCLASS64, other = invalid */
#ifdef __cplusplus
}
#endif
#endif
