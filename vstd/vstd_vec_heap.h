// vstd_vec_heap.h - stand-in for std::vector<T> of *any* size (symbolic element count): storage is
// one heap object of n elements, filled by __CPROVER_array_set.  Only what d_path_vec uses is
// provided (fill constructor, size, operator[], at); every index is an obligation.
#ifndef VSTD_VEC_HEAP_H
#define VSTD_VEC_HEAP_H
typedef __CPROVER_size_t vstd_vsize_t;
extern "C" void* malloc(vstd_vsize_t);
namespace std
{
template<class T> struct vector
{
  typedef T value_type; typedef T& reference; typedef const T& const_reference;
  typedef vstd_vsize_t size_type;
  T* b_;
  size_type n_;
  vector(size_type n, const T& v) : n_(n)
  { b_ = (T*) malloc(sizeof(T) * n); __CPROVER_assume(b_ != 0); __CPROVER_array_set(b_, v); }
  size_type size() const {return n_;}
  T& operator[](size_type i) { __CPROVER_assert(i < n_, "std::vector::operator[] index within [0, size())"); return b_[i]; }
  const T& operator[](size_type i) const { __CPROVER_assert(i < n_, "std::vector::operator[] index within [0, size())"); return b_[i]; }
  T& at(size_type i) { __CPROVER_assert(i < n_, "std::vector::at throws out_of_range"); return b_[i]; }
  const T& at(size_type i) const { __CPROVER_assert(i < n_, "std::vector::at throws out_of_range"); return b_[i]; }
};
}
#endif
