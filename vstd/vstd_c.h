/* vstd_c.h - C-side support shared by every spec.c.
   CBMC's C++ front end lowers `new T` to __new(sizeof(T)); goto-instrument --dfcc turns any
   function that has no body at instrumentation time into assert(false), so the bodies are
   supplied here (same semantics as CBMC's built-in library: malloc that does not fail). */
#ifndef VSTD_C_H
#define VSTD_C_H
void *malloc(__CPROVER_size_t);
void free(void *);
void *__new(__CPROVER_size_t malloc_size)
{
  void *res = malloc(malloc_size);
  __CPROVER_assume(res != 0);
  return res;
}
void *__new_array(__CPROVER_size_t count, __CPROVER_size_t size)
{
  void *res = malloc(count * size);
  __CPROVER_assume(res != 0);
  return res;
}
void __delete(void *ptr) { free(ptr); }
void __delete_array(void *ptr) { free(ptr); }
int nondet_int(void);
unsigned nondet_unsigned(void);
unsigned long nondet_ulong(void);
#endif
