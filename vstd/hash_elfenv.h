// elfenv.h - trusted stand-in for libelf/gelf used by the hash-lookup units (C++ side).
#define ABG_ASSERT(x) __CPROVER_assert(!!(x), "ABG_ASSERT")
#define ABG_ASSERT_NOT_REACHED do {__CPROVER_assert(0, "ABG_ASSERT_NOT_REACHED: abort() reached"); __CPROVER_assume(0);} while (0)
typedef unsigned long size_t;
typedef unsigned long uint64_t;
typedef unsigned int uint32_t;
typedef unsigned short uint16_t;
typedef uint32_t Elf32_Word;
typedef uint64_t Elf64_Xword;
extern "C" { int nondet_int(void); unsigned nondet_unsigned(void); unsigned long nondet_ulong(void); void abort(void); }
enum { STT_NOTYPE = 0, STT_OBJECT = 1, STT_FUNC = 2, STT_SECTION = 3, STT_FILE = 4, STT_COMMON = 5, STT_TLS = 6, STT_GNU_IFUNC = 10 };
enum { STB_LOCAL = 0, STB_GLOBAL = 1, STB_WEAK = 2, STB_GNU_UNIQUE = 10 };
enum { STV_DEFAULT = 0, STV_INTERNAL = 1, STV_HIDDEN = 2, STV_PROTECTED = 3 };
enum { SHN_UNDEF = 0, SHN_ABS = 0xfff1, SHN_COMMON = 0xfff2, STN_UNDEF = 0 };
enum { EI_CLASS = 4, ELFCLASS32 = 1, ELFCLASS64 = 2 };
#define GELF_ST_TYPE(val) ((val) & 0xf)
#define GELF_ST_BIND(val) (((unsigned char) (val)) >> 4)
#define GELF_ST_VISIBILITY(o) ((o) & 0x03)
struct GElf_Sym
{ uint32_t st_name; unsigned char st_info; unsigned char st_other; uint16_t st_shndx; uint64_t st_value; uint64_t st_size; };
struct GElf_Shdr
{
  uint32_t sh_name; uint32_t sh_type; uint64_t sh_flags; uint64_t sh_addr; uint64_t sh_offset;
  uint64_t sh_size; uint32_t sh_link; uint32_t sh_info; uint64_t sh_addralign; uint64_t sh_entsize;
};
struct GElf_Ehdr {unsigned char e_ident[16];};
struct Elf {int dummy;};
struct Elf_Scn {int role;};     // 0 symbol table, 1 hash table
struct Elf_Data {void* d_buf; size_t d_size;};
#include "hash_ghost.h"
static Elf_Scn gh_scn_symtab, gh_scn_hash;
static Elf_Data gh_data_symtab, gh_data_hash;
static char gh_name_buf[2];
// any libelf call may fail on a corrupted file (recorded in gh_env_failed)
#define ENV_MAY_FAIL(ret) do { if (nondet_int()) {gh_env_failed = 1; return ret;} } while (0)
Elf_Scn* elf_getscn(Elf*, size_t idx)
{
  ENV_MAY_FAIL(0);
  if (idx == gh_ht_index) {gh_scn_hash.role = 1; return &gh_scn_hash;}
  gh_scn_symtab.role = 0; return &gh_scn_symtab;
}
Elf_Data* elf_getdata(Elf_Scn* scn, Elf_Data*)
{
  ENV_MAY_FAIL(0);
  if (scn->role == 1)
    {
      // d_buf is either absent or holds d_size bytes
      gh_data_hash.d_buf = nondet_int() ? gh_ht_buf : 0;
      if (gh_data_hash.d_buf == 0) gh_env_failed = 1;
      gh_data_hash.d_size = gh_ht_size;
      return &gh_data_hash;
    }
  gh_data_symtab.d_buf = 0; gh_data_symtab.d_size = 0;
  return &gh_data_symtab;
}
GElf_Shdr* gelf_getshdr(Elf_Scn*, GElf_Shdr* dst)
{
  ENV_MAY_FAIL(0);
  dst->sh_link = nondet_unsigned(); dst->sh_type = nondet_unsigned();
  dst->sh_size = gh_symtab_size; dst->sh_entsize = gh_symtab_entsize;
  return dst;
}
GElf_Ehdr* gelf_getehdr(Elf*, GElf_Ehdr* dst)
{
  // the ELF header was already read by elf_begin: cannot fail; the class byte is arbitrary
  dst->e_ident[EI_CLASS] = (unsigned char) gh_elf_class;
  return dst;
}
unsigned long elf_hash(const char*) {return gh_hash;}
unsigned long elf_gnu_hash(const char*) {return gh_hash;}
GElf_Sym* gelf_getsym(Elf_Data*, int idx, GElf_Sym* dst)
{
  // libelf's symbol index is an int: an index that does not fit is a failure
  if (idx < 0) {gh_calls = gh_calls + 1; gh_cur_idx = 0; gh_env_failed = 1; return 0;}
  size_t i = (size_t) idx;
  gh_calls = gh_calls + 1; gh_cur_idx = i;
  if (i == gh_w) {gh_w_visited = 1; gh_w_visit_no = gh_calls; gh_w_getsym_ok = 0; gh_w_name_ok = 0;}
  if (i == gh_v) gh_v_visited = 1;
  ENV_MAY_FAIL(0);
  if (i == gh_w) gh_w_getsym_ok = 1;
  dst->st_name = nondet_unsigned(); dst->st_info = (unsigned char) nondet_int(); dst->st_other = (unsigned char) nondet_int();
  dst->st_shndx = (uint16_t) nondet_int(); dst->st_value = nondet_ulong(); dst->st_size = nondet_ulong();
  // whether the type/binding handed out for the watched symbol are gABI/GNU-defined ones
  if (i == gh_w)
    gh_w_supported = ((dst->st_info & 0xf) <= STT_TLS || (dst->st_info & 0xf) == STT_GNU_IFUNC)
      && ((dst->st_info >> 4) <= STB_WEAK || (dst->st_info >> 4) == STB_GNU_UNIQUE);
  return dst;
}
char* elf_strptr(Elf*, size_t, size_t)   // as in libelf: char*
{
  if (nondet_int()) return 0;
  if (gh_cur_idx == gh_w) gh_w_name_ok = 1;
  return gh_name_buf;
}
