/* ghost state for U-pkgstatus (scalars only) */
#ifndef PKG_GHOST_H
#define PKG_GHOST_H
#ifdef __cplusplus
extern "C" {
#endif
extern int gh_lc_phase;
extern unsigned long gh_n1;            /* number of ELF files in the first package */
extern unsigned long gh_absent;        /* how many look-ups in the second package answered "not there" */
extern unsigned long gh_present;       /* ... answered "there" */
extern int gh_type2;                   /* ELF type (dwarf_reader::elf_type) of the second package's files */
extern unsigned long gh_tasks;         /* comparison tasks created */
extern unsigned gh_tasks_or;           /* bitwise or of the statuses of all comparison tasks */
extern int gh_queue_ran;
#ifdef __cplusplus
}
#endif
#endif
