/* Contracts for U-pkgstatus (C30, C08, C14).
   C30: abipkgdiff exits with bits 4|8 whenever a binary of the first package is missing from the
   second, with bit 4 whenever a matched pair has ABI changes, and 0 only if nothing was removed and
   every matched pair compares clean.                                                         */
#include "vstd_c.h"
#include "ghost.h"
typedef unsigned long size_t;
int gh_lc_phase, gh_queue_ran; unsigned long gh_n1, gh_absent, gh_present, gh_tasks; int gh_type2; unsigned gh_tasks_or;

/* the notifier accumulates task statuses and lists a binary as changed when the change bit is set */
void w_notify(unsigned status_before, unsigned task_status, size_t changed_before, unsigned long *out);

/* C14: the task ordering is a strict total order up to equal keys (size sum, then name) */
int w_elf_size_is_greater(long s1a, long s1b, int name1, long s2a, long s2b, int name2)
__CPROVER_requires(s1a >= 0 && s1b >= 0 && s2a >= 0 && s2b >= 0
                   && s1a < (1L << 62) && s1b < (1L << 62) && s2a < (1L << 62) && s2b < (1L << 62))
__CPROVER_requires(gh_tasks == 0)
__CPROVER_ensures((__CPROVER_return_value != 0) ==
                  ((s1a + s1b != s2a + s2b) ? (s1a + s1b > s2a + s2b) : (name1 < name2)))
__CPROVER_assigns(gh_tasks)
CANARY_w_elf_size_is_greater
;

unsigned w_compare_userspace(int parallel, size_t num_workers, int verbose, int show_added, unsigned long *out);
int w_elf_type_enum(int i);
#define POST(c) __CPROVER_assert(c, "postcondition: " #c)

void h_notify(void)
{
  unsigned long out[2];
  unsigned in_status_before = nondet_unsigned(), in_task_status = nondet_unsigned(); size_t in_changed_before = nondet_ulong();
  gh_tasks = 0;
  /* contract as assumptions/assertions around the call (goto-instrument --dfcc crashes CBMC on this class) */
  __CPROVER_assume((in_status_before & ~15u) == 0 && (in_task_status & ~15u) == 0 && in_changed_before < (1UL << 40));
  w_notify(in_status_before, in_task_status, in_changed_before, out);
  POST(out[0] == (in_status_before | in_task_status));
  POST((in_task_status & 4u) ==> out[1] == in_changed_before + 1);
  POST(!((in_status_before | in_task_status) & 4u) ==> out[1] == in_changed_before);
  CANARY_h_notify;
}
void h_elf_size_is_greater(void)
{
  gh_tasks = 0;
  w_elf_size_is_greater(nondet_long(), nondet_long(), nondet_int(), nondet_long(), nondet_long(), nondet_int());
}
void h_compare_userspace(void)
{
  unsigned long out[2];
  gh_n1 = nondet_ulong(); gh_tasks_or = nondet_unsigned(); gh_lc_phase = nondet_int();
  gh_absent = 0; gh_present = 0; gh_tasks = 0; gh_queue_ran = 0; gh_type2 = nondet_int();
  int in_parallel = nondet_int(), in_verbose = nondet_int(), in_show_added = nondet_int(); size_t in_num_workers = nondet_ulong();
  __CPROVER_assume(gh_n1 <= 64 && (gh_tasks_or & ~15u) == 0 && (!in_parallel || in_num_workers >= 1));
  unsigned ret = w_compare_userspace(in_parallel, in_num_workers, in_verbose, in_show_added, out);
  /* only documented bits */
  POST((ret & ~15u) == 0);
  /* a removed binary sets both the change and the incompatible-change bits */
  POST(out[0] > 0 ==> (ret & 12u) == 12u);
  /* the statuses of all compared pairs are part of the verdict */
  POST(gh_tasks > 0 ==> (ret & gh_tasks_or) == gh_tasks_or);
  /* and nothing else is: exit 0 iff nothing was removed and every pair compared clean */
  POST(ret == ((out[0] > 0 ? 12u : 0u) | (gh_tasks > 0 ? gh_tasks_or : 0u)));
  /* every binary of the first package is either compared, removed or of a kind that is skipped */
  POST(out[0] == gh_absent && gh_absent + gh_present == gh_n1);
  /* every matched pair whose file (in the second package) is a DSO or an executable is compared;
     (enumerator values are read from the real enum) */
#define COMPARABLE2 (gh_type2 == w_elf_type_enum(0) || gh_type2 == w_elf_type_enum(1) || gh_type2 == w_elf_type_enum(2))
  POST(COMPARABLE2 ==> gh_tasks == gh_present);
  POST(!COMPARABLE2 ==> gh_tasks == 0);
  POST(gh_tasks > 0 ==> gh_queue_ran);
  CANARY_h_compare_userspace;
}
long nondet_long(void);
