/* Contracts for U-verdict.
   C08: "the change bit is set exactly when the report's summary lists at least one change that
   was not filtered out" - the summary (corpus_diff::priv::emit_diff_stats) prints the *net*
   numbers, so diff_has_net_changes must be the disjunction of the net numbers of its mode,
   plus SONAME / architecture changes which the report prints first.
   C05: removing an exported function or variable sets the incompatible-change bit.
   C08: the incompatible bit never appears without the change bit  =>  has_incompatible_changes()
   implies has_net_changes() (used as a callee contract by unit abidiff_main).                 */
#include "vstd_c.h"
#include "fields.h"
typedef __CPROVER_size_t size_t;

#define FL(k) (((flags) >> (k)) & 1u)
/* a category of the report that is switched off counts as entirely filtered out */
#define FILT_removed_func   (!FL(0) ? st[F_num_func_removed] : st[F_num_removed_func_filtered_out])
#define FILT_added_func     (!FL(1) ? st[F_num_func_added] : st[F_num_added_func_filtered_out])
#define FILT_removed_vars   (!FL(2) ? st[F_num_vars_removed] : st[F_num_removed_vars_filtered_out])
#define FILT_added_vars     (!FL(3) ? st[F_num_vars_added] : st[F_num_added_vars_filtered_out])
#define FILT_removed_fsyms  (!FL(4) ? st[F_num_func_syms_removed] : st[F_num_removed_func_syms_filtered_out])
#define FILT_added_fsyms    (!(FL(5) && FL(4)) ? st[F_num_func_syms_added] : st[F_num_added_func_syms_filtered_out])
#define FILT_removed_vsyms  (!FL(4) ? st[F_num_var_syms_removed] : st[F_num_removed_var_syms_filtered_out])
#define FILT_added_vsyms    (!(FL(5) && FL(4)) ? st[F_num_var_syms_added] : st[F_num_added_var_syms_filtered_out])

#define N_func_removed   (st[F_num_func_removed] - FILT_removed_func)
#define N_func_changed   (st[F_num_func_changed] - st[F_num_changed_func_filtered_out])
#define N_func_added     (st[F_num_func_added] - FILT_added_func)
#define N_vars_removed   (st[F_num_vars_removed] - FILT_removed_vars)
#define N_vars_changed   (st[F_num_vars_changed] - st[F_num_changed_vars_filtered_out])
#define N_vars_added     (st[F_num_vars_added] - FILT_added_vars)
#define N_fsyms_removed  (st[F_num_func_syms_removed] - FILT_removed_fsyms)
#define N_fsyms_added    (st[F_num_func_syms_added] - FILT_added_fsyms)
#define N_vsyms_removed  (st[F_num_var_syms_removed] - FILT_removed_vsyms)
#define N_vsyms_added    (st[F_num_var_syms_added] - FILT_added_vsyms)
#define N_unreach_removed (st[F_num_removed_unreachable_types] - st[F_num_removed_unreachable_types_filtered_out])
#define N_unreach_changed (st[F_num_changed_unreachable_types] - st[F_num_changed_unreachable_types_filtered_out])
#define N_unreach_added  (st[F_num_added_unreachable_types] - st[F_num_added_unreachable_types_filtered_out])
#define N_leaf           (st[F_num_leaf_changes] - st[F_num_leaf_changes_filtered_out])
#define N_leaf_type      (st[F_num_leaf_type_changes] - st[F_num_leaf_type_changes_filtered_out])
#define N_leaf_func      (st[F_num_leaf_func_changes] - st[F_num_leaf_func_changes_filtered_out])
#define N_leaf_var       (st[F_num_leaf_var_changes] - st[F_num_leaf_var_changes_filtered_out])

/* what apply_filters_and_compute_diff_stats guarantees (assumed): nothing is filtered out more
   often than it occurs */
#define WF_STATS \
  (st[F_num_removed_func_filtered_out] <= st[F_num_func_removed] \
   && st[F_num_added_func_filtered_out] <= st[F_num_func_added] \
   && st[F_num_changed_func_filtered_out] <= st[F_num_func_changed] \
   && st[F_num_removed_vars_filtered_out] <= st[F_num_vars_removed] \
   && st[F_num_added_vars_filtered_out] <= st[F_num_vars_added] \
   && st[F_num_changed_vars_filtered_out] <= st[F_num_vars_changed] \
   && st[F_num_removed_func_syms_filtered_out] <= st[F_num_func_syms_removed] \
   && st[F_num_added_func_syms_filtered_out] <= st[F_num_func_syms_added] \
   && st[F_num_removed_var_syms_filtered_out] <= st[F_num_var_syms_removed] \
   && st[F_num_added_var_syms_filtered_out] <= st[F_num_var_syms_added] \
   && st[F_num_leaf_changes_filtered_out] <= st[F_num_leaf_changes] \
   && st[F_num_leaf_type_changes_filtered_out] <= st[F_num_leaf_type_changes] \
   && st[F_num_leaf_func_changes_filtered_out] <= st[F_num_leaf_func_changes] \
   && st[F_num_leaf_var_changes_filtered_out] <= st[F_num_leaf_var_changes] \
   && st[F_num_added_unreachable_types_filtered_out] <= st[F_num_added_unreachable_types] \
   && st[F_num_removed_unreachable_types_filtered_out] <= st[F_num_removed_unreachable_types] \
   && st[F_num_changed_unreachable_types_filtered_out] <= st[F_num_changed_unreachable_types])

/* the summary of the default report lists these net numbers */
#define DEFAULT_NET \
  (soname_changed || arch_changed || N_func_removed != 0 || N_func_changed != 0 || N_func_added != 0 \
   || N_vars_removed != 0 || N_vars_changed != 0 || N_vars_added != 0 \
   || N_unreach_removed != 0 || N_unreach_changed != 0 || N_unreach_added != 0 \
   || N_fsyms_removed != 0 || N_fsyms_added != 0 || N_vsyms_removed != 0 || N_vsyms_added != 0)
/* the summary of the leaf report lists these */
#define LEAF_NET \
  (soname_changed || arch_changed || N_func_removed != 0 || N_leaf_type != 0 || N_leaf_func != 0 || N_func_added != 0 \
   || N_vars_removed != 0 || N_leaf_var != 0 || N_vars_added != 0 \
   || N_unreach_removed != 0 || N_unreach_changed != 0 || N_unreach_added != 0 \
   || N_fsyms_removed != 0 || N_fsyms_added != 0 || N_vsyms_removed != 0 || N_vsyms_added != 0)
#define INCOMPAT \
  (soname_changed || arch_changed || N_func_removed != 0 \
   || (st[F_num_func_with_virt_offset_changes] != 0 && N_func_changed != 0) \
   || N_vars_removed != 0 || N_fsyms_removed != 0 || N_vsyms_removed != 0 \
   || N_unreach_removed != 0 || N_unreach_changed != 0)

int w_verdict(int which, int leaf, int soname_changed, int arch_changed, unsigned flags, const size_t *st)
__CPROVER_requires(0 <= which && which <= 4)
__CPROVER_requires(__CPROVER_is_fresh(st, F_COUNT * sizeof(size_t)))
__CPROVER_requires(WF_STATS)
__CPROVER_ensures(which == 0 ==> ((__CPROVER_return_value != 0) == ((leaf ? LEAF_NET : DEFAULT_NET) != 0)))
__CPROVER_ensures(which == 1 ==> ((__CPROVER_return_value != 0) == (INCOMPAT != 0)))
/* C05: a removed function or variable that is not filtered out is an incompatible change */
__CPROVER_ensures((which == 1 && (N_func_removed != 0 || N_vars_removed != 0)) ==> __CPROVER_return_value != 0)
__CPROVER_ensures(which == 2 ==> ((__CPROVER_return_value != 0) ==
                  (N_func_changed != 0 || N_vars_changed != 0 || N_unreach_removed != 0 || N_unreach_changed != 0)))
/* a null corpus_diff has no net changes */
__CPROVER_ensures((which == 3 || which == 4) ==> __CPROVER_return_value == 0)
__CPROVER_assigns()
CANARY_w_verdict
;

int w_incompat_without_net(int leaf, int soname_changed, int arch_changed, unsigned flags, const size_t *st)
__CPROVER_requires(__CPROVER_is_fresh(st, F_COUNT * sizeof(size_t)))
__CPROVER_requires(WF_STATS)
/* default mode: has_incompatible_changes() => has_net_changes() */
__CPROVER_ensures(!leaf ==> __CPROVER_return_value == 0)
/* leaf mode: the only way out is the virtual-offset disjunct (listed assumption: such a function
   has a leaf type or function change) */
__CPROVER_ensures((leaf && __CPROVER_return_value != 0) ==>
                  (st[F_num_func_with_virt_offset_changes] != 0 && N_func_changed != 0))
__CPROVER_assigns()
CANARY_w_incompat_without_net
;

void w_net_counts(unsigned flags, const size_t *st, size_t *out)
__CPROVER_requires(__CPROVER_is_fresh(st, F_COUNT * sizeof(size_t)))
__CPROVER_requires(__CPROVER_is_fresh(out, 18 * sizeof(size_t)))
__CPROVER_requires(WF_STATS)
__CPROVER_ensures(out[0] == N_func_removed && out[1] == N_func_changed && out[2] == N_func_added)
__CPROVER_ensures(out[3] == N_vars_removed && out[4] == N_vars_changed && out[5] == N_vars_added)
__CPROVER_ensures(out[6] == N_fsyms_removed && out[7] == N_fsyms_added && out[8] == N_vsyms_removed && out[9] == N_vsyms_added)
__CPROVER_ensures(out[10] == N_unreach_removed && out[11] == N_unreach_changed && out[12] == N_unreach_added)
__CPROVER_ensures(out[13] == N_leaf && out[14] == N_leaf_type && out[15] == N_leaf_func && out[16] == N_leaf_var)
__CPROVER_ensures(out[17] == st[F_num_func_with_virt_offset_changes])
/* net numbers never exceed the totals */
__CPROVER_ensures(out[0] <= st[F_num_func_removed] && out[1] <= st[F_num_func_changed] && out[3] <= st[F_num_vars_removed])
__CPROVER_assigns(__CPROVER_object_whole(out))
CANARY_w_net_counts
;

void h_verdict(void)
{
  size_t st[F_COUNT];
  int in_which = nondet_int(), in_leaf = nondet_int(), in_soname = nondet_int(), in_arch = nondet_int();
  unsigned in_flags = nondet_unsigned();
  w_verdict(in_which, in_leaf, in_soname, in_arch, in_flags, st);
}
void h_incompat_implies_net(void)
{
  size_t st[F_COUNT];
  int in_leaf = nondet_int(), in_soname = nondet_int(), in_arch = nondet_int();
  unsigned in_flags = nondet_unsigned();
  w_incompat_without_net(in_leaf, in_soname, in_arch, in_flags, st);
}
void h_net_counts(void)
{
  size_t st[F_COUNT]; size_t out[18];
  unsigned in_flags = nondet_unsigned();
  w_net_counts(in_flags, st, out);
}
