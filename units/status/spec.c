/* Contracts for U-status.  Postconditions are taken from the documented exit-status
   bit-field (doc/manuals/abidiff.rst "Return values"): ERROR=1, USAGE_ERROR=2,
   ABI_CHANGE=4, ABI_INCOMPATIBLE_CHANGE=8; status words combine by bitwise or. */

unsigned w_status_or(unsigned l, unsigned r)
__CPROVER_ensures(__CPROVER_return_value == (l | r))
__CPROVER_assigns()
CANARY_w_status_or
;

unsigned w_status_and(unsigned l, unsigned r)
__CPROVER_ensures(__CPROVER_return_value == (l & r))
__CPROVER_assigns()
CANARY_w_status_and
;

unsigned w_status_oreq(unsigned *l, unsigned r)
__CPROVER_requires(__CPROVER_is_fresh(l, sizeof(*l)))
__CPROVER_ensures(*l == (__CPROVER_old(*l) | r))
__CPROVER_ensures(__CPROVER_return_value == *l)
__CPROVER_assigns(*l)
CANARY_w_status_oreq
;

int w_status_has_error(unsigned s)
__CPROVER_ensures((__CPROVER_return_value != 0) == ((s & (1u | 2u)) != 0))
__CPROVER_assigns()
CANARY_w_status_has_error
;

int w_status_has_change(unsigned s)
__CPROVER_ensures((__CPROVER_return_value != 0) == ((s & 4u) != 0))
__CPROVER_assigns()
CANARY_w_status_has_change
;

int w_status_has_incompat(unsigned s)
__CPROVER_ensures((__CPROVER_return_value != 0) == ((s & 8u) != 0))
__CPROVER_assigns()
CANARY_w_status_has_incompat
;

unsigned w_status_enum(int which)
__CPROVER_requires(0 <= which && which <= 4)
__CPROVER_ensures(which == 0 ==> __CPROVER_return_value == 0u)
__CPROVER_ensures(which == 1 ==> __CPROVER_return_value == 1u)
__CPROVER_ensures(which == 2 ==> __CPROVER_return_value == 2u)
__CPROVER_ensures(which == 3 ==> __CPROVER_return_value == 4u)
__CPROVER_ensures(which == 4 ==> __CPROVER_return_value == 8u)
__CPROVER_assigns()
CANARY_w_status_enum
;

unsigned nondet_unsigned(void);
int nondet_int(void);

void h_status_or(void) { unsigned in_l = nondet_unsigned(), in_r = nondet_unsigned(); w_status_or(in_l, in_r); }
void h_status_and(void) { unsigned in_l = nondet_unsigned(), in_r = nondet_unsigned(); w_status_and(in_l, in_r); }
void h_status_oreq(void) { unsigned in_l = nondet_unsigned(), in_r = nondet_unsigned(); w_status_oreq(&in_l, in_r); }
void h_status_has_error(void) { unsigned in_s = nondet_unsigned(); w_status_has_error(in_s); }
void h_status_has_change(void) { unsigned in_s = nondet_unsigned(); w_status_has_change(in_s); }
void h_status_has_incompat(void) { unsigned in_s = nondet_unsigned(); w_status_has_incompat(in_s); }
void h_status_enum(void) { int in_which = nondet_int(); w_status_enum(in_which); }
