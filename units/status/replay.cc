// Native replay for U-status: the extracted text (gen.cpp, compiled by g++) is run on the
// verifier's counterexample and the documented postcondition is re-evaluated.
#include "replay_util.h"
#include "gen.cpp"

int main(int argc, char** argv)
{
  replay_args a(argc, argv);
  unsigned l = a.u("in_l"), r = a.u("in_r"), s = a.u("in_s");
  if (a.harness == "h_status_or")
    REPLAY_EXPECT(w_status_or(l, r) == (l | r), "l=%u r=%u got %u", l, r, w_status_or(l, r));
  else if (a.harness == "h_status_and")
    REPLAY_EXPECT(w_status_and(l, r) == (l & r), "l=%u r=%u got %u", l, r, w_status_and(l, r));
  else if (a.harness == "h_status_oreq")
    {unsigned x = l; unsigned res = w_status_oreq(&x, r);
     REPLAY_EXPECT(x == (l | r) && res == x, "l=%u r=%u got l'=%u result=%u", l, r, x, res);}
  else if (a.harness == "h_status_has_error")
    REPLAY_EXPECT((w_status_has_error(s) != 0) == ((s & 3u) != 0), "s=%u got %d", s, w_status_has_error(s));
  else if (a.harness == "h_status_has_change")
    REPLAY_EXPECT((w_status_has_change(s) != 0) == ((s & 4u) != 0), "s=%u got %d", s, w_status_has_change(s));
  else if (a.harness == "h_status_has_incompat")
    REPLAY_EXPECT((w_status_has_incompat(s) != 0) == ((s & 8u) != 0), "s=%u got %d", s, w_status_has_incompat(s));
  else if (a.harness == "h_status_enum")
    {
      static const unsigned doc[5] = {0, 1, 2, 4, 8};
      for (int w = 0; w < 5; ++w)
	REPLAY_EXPECT(w_status_enum(w) == doc[w], "enumerator #%d has value %u, documented %u", w, w_status_enum(w), doc[w]);
    }
  else
    return 3;
  printf("REPLAY: postcondition holds on this input\n");
  return 0;
}
