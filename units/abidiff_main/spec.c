/* Contracts for U-abidiff-main.  Postconditions come from the statements of C08/C09/C05:
   - exit status is a combination of the documented bits 1,2,4,8 only;
   - 8 never without 4; 2 never without 1;
   - if an input could not be checked / recognized / loaded the error bit is set (never 0);
   - when no error occurred and a corpus comparison ran, bit 4 <=> has_net_changes() and
     bit 8 <=> has_incompatible_changes() (C05: removals set the incompatible bit);
   - a rejected command line exits with USAGE_ERROR|ERROR.                                  */
#include "vstd_c.h"
int g_cmdline_error, g_version_only, g_suppr_files_bad, g_load_failed, g_files_suppressed;
int g_compared, g_net, g_incompat, g_has_changes, g_reported, g_kind_mismatch, g_leaf_mode;

int w_abidiff_main(void)
__CPROVER_requires(g_cmdline_error == 0 && g_version_only == 0 && g_suppr_files_bad == 0
                   && g_load_failed == 0 && g_files_suppressed == 0 && g_compared == 0
                   && g_net == 0 && g_incompat == 0 && g_has_changes == 0 && g_reported == 0)
__CPROVER_ensures((__CPROVER_return_value & ~15) == 0)
__CPROVER_ensures((__CPROVER_return_value & 8) ==> (__CPROVER_return_value & 4))
__CPROVER_ensures((__CPROVER_return_value & 2) ==> (__CPROVER_return_value & 1))
/* C09 */
__CPROVER_ensures((g_load_failed && !g_files_suppressed) ==> (__CPROVER_return_value & 1))
__CPROVER_ensures(g_load_failed ==> (g_files_suppressed || __CPROVER_return_value != 0))
/* usage errors */
__CPROVER_ensures(g_cmdline_error ==> (__CPROVER_return_value & 3) == 3)
__CPROVER_ensures(g_suppr_files_bad ==> (__CPROVER_return_value & 3) == 3)
__CPROVER_ensures(g_version_only ==> __CPROVER_return_value == 0)
/* C08 sentence 3 / C05: status agrees with the verdict predicates */
__CPROVER_ensures((g_compared && !(__CPROVER_return_value & 1)) ==>
                  (((__CPROVER_return_value & 4) != 0) == (g_net != 0)))
__CPROVER_ensures((g_compared && !(__CPROVER_return_value & 1)) ==>
                  (((__CPROVER_return_value & 8) != 0) == (g_incompat != 0)))
__CPROVER_ensures((g_compared && g_has_changes && !(__CPROVER_return_value & 1)) ==> g_reported)
/* change bits only ever come from a comparison that ran */
__CPROVER_ensures((__CPROVER_return_value & 12) ==> g_compared)
__CPROVER_assigns(g_cmdline_error, g_version_only, g_suppr_files_bad, g_load_failed, g_files_suppressed,
                  g_compared, g_net, g_incompat, g_has_changes, g_reported, g_leaf_mode)
CANARY_w_abidiff_main
;

/* handle_error: "ABIDIFF_ERROR if an error was detected, ABIDIFF_OK otherwise", where an error
   is a status without STATUS_OK (bit 0 of elf_reader::status). */
unsigned w_handle_error(unsigned status_code, int have_ctxt)
__CPROVER_requires((status_code & ~15u) == 0)
__CPROVER_ensures(__CPROVER_return_value == ((status_code & 1u) ? 0u : 1u))
__CPROVER_assigns()
CANARY_w_handle_error
;

void h_abidiff_main(void) { w_abidiff_main(); }
void h_handle_error(void) { unsigned in_status = nondet_unsigned(); int in_have_ctxt = nondet_int(); w_handle_error(in_status, in_have_ctxt); }
