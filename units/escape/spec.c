/* Contracts for U-escape (C04; the unescape functions also serve C33).
   Oracle: XML 1.0 (2.4 character data and markup, 4.6 predefined entities, 2.5 comments):
   inside an attribute value delimited by ' the characters < & ' (and, by libabigail's choice, > ")
   must appear as &lt; &amp; &apos; &gt; &quot;  -  inside a comment "--" must not occur.
   Stated for an arbitrary watched position w of the text appended by the call.              */
#include "vstd_c.h"
#include "ghost.h"
int gh_lc_phase; unsigned long gh_w, gh_n0, gh_out_n, gh_in_n; char gh_win[6]; char *gh_in_buf;
void w_escape(void); void w_escape_comment(void); void w_unescape(void); void w_unescape_comment(void);

static void any_input(void)
{
  gh_in_n = nondet_ulong();
  __CPROVER_assume(gh_in_n <= (1UL << 20));          /* strings up to 1 MiB */
  gh_in_buf = malloc(gh_in_n + 1);
  __CPROVER_assume(gh_in_buf != 0);
  gh_in_buf[gh_in_n] = 0;                            /* c_str()/operator[](size()) is NUL */
  gh_n0 = nondet_ulong(); gh_w = nondet_ulong();
  __CPROVER_assume(gh_n0 <= (1UL << 40) && gh_w >= gh_n0 && gh_w <= (1UL << 61));  /* watch the appended part only */
  gh_lc_phase = nondet_int();
}
#define OV(k) (gh_w + (k) < gh_out_n)
#define OW(k) (gh_win[k])
#define POST(c) __CPROVER_assert(c, "postcondition: " #c)

void h_escape(void)
{
  any_input();
  w_escape();
  POST(OV(0) ==> (OW(0) != '<' && OW(0) != '>' && OW(0) != '\'' && OW(0) != '"'));
  POST((OV(0) && OW(0) == '&') ==>
       ((OV(3) && OW(1) == 'l' && OW(2) == 't' && OW(3) == ';') || (OV(3) && OW(1) == 'g' && OW(2) == 't' && OW(3) == ';')
        || (OV(4) && OW(1) == 'a' && OW(2) == 'm' && OW(3) == 'p' && OW(4) == ';')
        || (OV(5) && OW(1) == 'a' && OW(2) == 'p' && OW(3) == 'o' && OW(4) == 's' && OW(5) == ';')
        || (OV(5) && OW(1) == 'q' && OW(2) == 'u' && OW(3) == 'o' && OW(4) == 't' && OW(5) == ';')));
  POST(gh_out_n >= gh_n0);
  CANARY_h_escape;
}
void h_escape_comment(void)
{
  any_input();
  w_escape_comment();
  POST(OV(0) ==> OW(0) != '-');
  CANARY_h_escape_comment;
}
void h_unescape(void)
{
  any_input();
  w_unescape();
  POST(gh_out_n >= gh_n0 && gh_out_n - gh_n0 <= gh_in_n);   /* never longer than the input */
  CANARY_h_unescape;
}
void h_unescape_comment(void)
{
  any_input();
  w_unescape_comment();
  POST(gh_out_n >= gh_n0 && gh_out_n - gh_n0 <= gh_in_n);
  CANARY_h_unescape_comment;
}
