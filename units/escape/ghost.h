#ifndef ESCAPE_GHOST_H
#define ESCAPE_GHOST_H
#ifdef __cplusplus
extern "C" {
#endif
extern int gh_lc_phase;
extern unsigned long gh_w;          /* watched position in the output string */
extern char gh_win[6];              /* the bytes written at positions gh_w .. gh_w+5 */
extern unsigned long gh_n0;         /* length of the output string before the call */
extern unsigned long gh_out_n;      /* length of the output string after the call */
extern char *gh_in_buf; extern unsigned long gh_in_n;   /* the input string */
#ifdef __cplusplus
}
#endif
#endif
