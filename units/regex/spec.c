/* Contracts for U-regex (C27; compile also serves C24's last sentence).
   Oracle: POSIX.1-2017 XBD 9.4.3 (ERE special characters).  A name list n1..nk must become the
   pattern ^(e1|e2|...|ek)$ where ei is ni with every special character preceded by a backslash and
   no ordinary character preceded by one; then (ERE semantics, assumed) the pattern matches exactly
   the listed names.  An empty list must give a pattern that matches nothing.                    */
#include "vstd_c.h"
#include "ghost.h"
int gh_lc_phase, gh_st, gh_bad, gh_k_seen, gh_k_escaped, gh_shape, gh_order_bad, gh_regcomp_fails;
unsigned long gh_units, gh_k, gh_in_n, gh_names, gh_nstrs; char gh_k_char; char *gh_in_buf;
void w_escape_op(void); int w_generate(void); int w_compile_is_null(void);
#define POST(c) __CPROVER_assert(c, "postcondition: " #c)
static int must_escape(char c)
{return c == '^' || c == '.' || c == '[' || c == '$' || c == '(' || c == ')' || c == '|' || c == '*' || c == '+' || c == '?' || c == '{' || c == '\\';}

void h_escape_op(void)
{
  gh_in_n = nondet_ulong(); __CPROVER_assume(gh_in_n <= (1UL << 20));
  gh_in_buf = malloc(gh_in_n + 1); __CPROVER_assume(gh_in_buf != 0);
  gh_k = nondet_ulong(); __CPROVER_assume(gh_k < gh_in_n);
  gh_st = 0; gh_bad = 0; gh_units = 0; gh_k_seen = 0; gh_k_escaped = 0; gh_lc_phase = nondet_int();
  w_escape_op();
  POST(!gh_bad && gh_st == 0);                 /* no special left bare, no ordinary character escaped, no dangling backslash */
  POST(gh_units == gh_in_n);                   /* one unit per input character */
  POST(gh_k_seen && gh_k_char == gh_in_buf[gh_k]);                       /* ... and it is that character */
  POST(must_escape(gh_in_buf[gh_k]) ==> gh_k_escaped);                   /* specials are escaped */
  POST((gh_k_escaped && !must_escape(gh_in_buf[gh_k])) ==> (gh_in_buf[gh_k] == ']' || gh_in_buf[gh_k] == '}'));
  CANARY_h_escape_op;
}
void h_generate(void)
{
  gh_nstrs = nondet_ulong(); __CPROVER_assume(gh_nstrs <= (1UL << 20));
  gh_shape = 0; gh_names = 0; gh_order_bad = 0; gh_lc_phase = nondet_int();
  int never = w_generate();
  POST(gh_nstrs == 0 ==> (never && gh_shape == 0));                       /* "^_^": matches nothing */
  POST(gh_nstrs > 0 ==> (gh_shape == 3 && gh_names == gh_nstrs && !gh_order_bad && !never));   /* ^(e1|...|ek)$ */
  CANARY_h_generate;
}
void h_compile(void)
{
  gh_regcomp_fails = nondet_int();
  int isnull = w_compile_is_null();
  POST((gh_regcomp_fails != 0) == (isnull != 0));     /* an invalid pattern yields no regex object */
  CANARY_h_compile;
}
