#ifndef REGEX_GHOST_H
#define REGEX_GHOST_H
#ifdef __cplusplus
extern "C" {
#endif
extern int gh_lc_phase;
/* character-level stream (operator<< of regex::escape): a state machine over the emitted bytes */
extern int gh_st;                 /* 0 = between units, 1 = a backslash has been emitted and awaits its character */
extern int gh_bad;                /* the emitted text is not a correct ERE escaping of the input so far */
extern unsigned long gh_units;    /* complete units emitted (a unit = c or \c) */
extern unsigned long gh_k;        /* watched input position */
extern int gh_k_seen; extern char gh_k_char; extern int gh_k_escaped;   /* the unit emitted for input position gh_k */
extern char *gh_in_buf; extern unsigned long gh_in_n;
/* token-level stream (generate_from_strings) */
extern int gh_shape;              /* 0 start, 1 after "^(" or "|" (a name must follow), 2 after a name, 3 after ")$", -1 malformed */
extern unsigned long gh_names;    /* names emitted */
extern int gh_order_bad;          /* a name was emitted out of order */
extern unsigned long gh_nstrs;
extern int gh_regcomp_fails;
#ifdef __cplusplus
}
#endif
#endif
