#ifndef KSYMMARK_GHOST_H
#define KSYMMARK_GHOST_H
#ifdef __cplusplus
extern "C" {
#endif
extern int gh_lc_phase, gh_lc_phase_inner;
extern unsigned long gh_nnames;   /* number of __ksymtab_-exported names */
extern unsigned long gh_wname;    /* watched name (position in the iteration order of the set) */
extern int gh_wname_found;        /* it has symbols in name_symbol_map_ */
extern unsigned long gh_n;        /* number of symbols recorded under the watched name */
extern unsigned long gh_w;        /* watched symbol (index in that list) */
extern int gh_w_public, gh_w_old; /* is it public; was it marked before */
extern unsigned long gh_cur_name; /* name the map iterator handed out last refers to */
#ifdef __cplusplus
}
#endif
#endif
