#ifndef KSYMMARK_GHOST_H
#define KSYMMARK_GHOST_H
#ifdef __cplusplus
extern "C" {
#endif
extern int gh_lc_phase;
extern unsigned long gh_n;        /* number of symbols recorded under the exported name */
extern unsigned long gh_w;        /* watched symbol (index in that list) */
extern int gh_w_public, gh_w_old; /* is it public; was it marked before */
#ifdef __cplusplus
}
#endif
#endif
