/* Contract for the ksymtab marking loop of symtab::load_ (C28): for every name exported through a
   __ksymtab_<name> marker that has symbols, EVERY public symbol recorded under that name is marked as
   exported - wherever it sits in its list (local symbols of the same name come first in .symtab) and
   whatever happens with the other exported names (a marker whose name has no function/object symbol,
   e.g. an exported assembly label, must not affect them) - and no non-public symbol is.
   Stated for an arbitrary watched name and an arbitrary watched symbol of it.                  */
#include "vstd_c.h"
#include "ghost.h"
int gh_lc_phase, gh_lc_phase_inner, gh_wname_found, gh_w_public, gh_w_old; unsigned long gh_nnames, gh_wname, gh_n, gh_w, gh_cur_name;
int w_ksymtab_mark(void);
void h_ksymtab_mark(void)
{
  gh_nnames = nondet_ulong(); gh_wname = nondet_ulong(); gh_wname_found = nondet_int() != 0;
  gh_n = nondet_ulong(); gh_w = nondet_ulong(); gh_w_public = nondet_int() != 0; gh_w_old = nondet_int() != 0;
  __CPROVER_assume(gh_nnames <= (1UL << 20) && gh_wname < gh_nnames && gh_n <= (1UL << 20) && gh_w < gh_n);
  gh_lc_phase = nondet_int(); gh_lc_phase_inner = nondet_int();
  int marked = w_ksymtab_mark();
  __CPROVER_assert((gh_wname_found && gh_w_public) ==> marked, "postcondition: every public symbol of an exported name is marked as exported");
  __CPROVER_assert((!gh_w_public && !gh_w_old) ==> !marked, "postcondition: a non-public symbol is not marked");
  __CPROVER_assert((!gh_wname_found && !gh_w_old) ==> !marked, "postcondition: symbols of other names are not marked");
  CANARY_h_ksymtab_mark;
}
