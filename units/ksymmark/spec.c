/* Contract for the ksymtab marking statement of symtab::load_ (C28): when <name> is exported through
   the kernel symbol table, EVERY public symbol recorded under that name is marked as exported,
   wherever it sits in the list (local symbols of the same name come first in .symtab), and no
   non-public symbol is.  Stated for an arbitrary watched entry w of a list of arbitrary length. */
#include "vstd_c.h"
#include "ghost.h"
int gh_lc_phase, gh_w_public, gh_w_old; unsigned long gh_n, gh_w;
int w_ksymtab_mark(void);
void h_ksymtab_mark(void)
{
  gh_n = nondet_ulong(); gh_w = nondet_ulong(); gh_w_public = nondet_int() != 0; gh_w_old = nondet_int() != 0;
  __CPROVER_assume(gh_n <= (1UL << 20) && gh_w < gh_n);
  gh_lc_phase = nondet_int();
  int marked = w_ksymtab_mark();
  __CPROVER_assert(gh_w_public ==> marked, "postcondition: every public symbol of an exported name is marked as exported");
  __CPROVER_assert((!gh_w_public && !gh_w_old) ==> !marked, "postcondition: a non-public symbol is not marked");
  CANARY_h_ksymtab_mark;
}
