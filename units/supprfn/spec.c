/* Contracts for U-supprfn (C25: applying any suppression never crashes or aborts).
   name_regexp / name_not_regexp blocks of function_suppression::suppresses_function, for every
   function, every alias ring and every outcome of the matches:
     - regex::match is only ever handed a compiled regex (it calls regexec on it): never null;
     - the block decides with its own regex: name_not_regexp must not consult name_regexp;
     - the function name matching name_not_regexp (resp. not matching name_regexp) means "not suppressed";
     - when other aliases are taken into account, every alias between the function's symbol and the
       main symbol is checked, and one that violates the condition means "not suppressed".
   "parameter" loop of read_function_suppression: no ABG_ASSERT fails whatever kinds of properties
   (simple, list, tuple) the section holds under whatever names.                                 */
#include "vstd_c.h"
#include "ghost.h"
int gh_lc_phase, gh_w_matches, gh_w_checked, gh_fname_matches, gh_null_regex_used, gh_other_regex_used;
int gh_allow, gh_has_sym, gh_alias_from_name, gh_has_aliases, gh_block, gh_assert_failed;
unsigned long gh_ring_len, gh_pos, gh_start, gh_w, gh_nprops;
int w_name_not_regexp(int name_regex_present); int w_name_regexp(void); void w_parameter_loop(void);
#define POST(c) __CPROVER_assert(c, "postcondition: " #c)
static void any_function(void)
{
  gh_ring_len = nondet_ulong(); gh_start = nondet_ulong(); gh_w = nondet_ulong(); gh_pos = 0;
  __CPROVER_assume(gh_ring_len >= 1 && gh_ring_len <= (1UL << 32) && gh_start < gh_ring_len && gh_w < gh_ring_len);
  gh_w_matches = nondet_int() != 0; gh_fname_matches = nondet_int() != 0; gh_w_checked = 0;
  gh_null_regex_used = 0; gh_other_regex_used = 0;
  gh_allow = nondet_int() != 0; gh_has_sym = nondet_int() != 0; gh_alias_from_name = nondet_int() != 0;
  gh_has_aliases = gh_ring_len >= 2;
  gh_lc_phase = nondet_int();
}
#define ALIASES_COUNT (gh_allow && gh_has_sym && gh_alias_from_name && gh_has_aliases)
void h_name_not_regexp(void)
{
  any_function(); gh_block = 2;
  int in_name_regex_present = nondet_int() != 0;
  int r = w_name_not_regexp(in_name_regex_present);
  POST(!gh_null_regex_used);
  POST(!gh_other_regex_used);
  POST(gh_fname_matches ==> !r);
  POST((r && ALIASES_COUNT && gh_w > gh_start) ==> (gh_w_checked && !gh_w_matches));
  CANARY_h_name_not_regexp;
}
void h_name_regexp(void)
{
  any_function(); gh_block = 1;
  int r = w_name_regexp();
  POST(!gh_null_regex_used);
  POST(!gh_other_regex_used);
  POST(!gh_fname_matches ==> !r);
  POST((r && ALIASES_COUNT && gh_w > gh_start) ==> (gh_w_checked && gh_w_matches));
  CANARY_h_name_regexp;
}
void h_parameter_loop(void)
{
  gh_nprops = nondet_ulong(); __CPROVER_assume(gh_nprops <= (1UL << 20));
  gh_assert_failed = 0; gh_lc_phase = nondet_int();
  w_parameter_loop();
  POST(!gh_assert_failed);
  CANARY_h_parameter_loop;
}
