#ifndef SUPPRFN_GHOST_H
#define SUPPRFN_GHOST_H
#ifdef __cplusplus
extern "C" {
#endif
extern int gh_lc_phase;
/* alias ring of the function's symbol: main -> a1 -> ... -> a(L-1) -> main */
extern unsigned long gh_ring_len;   /* L >= 1 */
extern unsigned long gh_pos;        /* ring position of the alias the loop variable refers to */
extern unsigned long gh_start;      /* ring position of the function's own symbol */
extern unsigned long gh_w;          /* watched alias (ring position) */
extern int gh_w_matches;            /* its name matches the regex of the block under test */
extern int gh_w_checked;            /* regex::match was called on its name with that regex */
extern int gh_fname_matches;        /* the function's name matches the regex of the block under test */
extern int gh_null_regex_used;      /* regex::match was handed a null regex */
extern int gh_other_regex_used;     /* regex::match was handed a regex other than the block's own */
extern int gh_allow, gh_has_sym, gh_alias_from_name, gh_has_aliases;
extern int gh_block;                /* 1: name_regexp block, 2: name_not_regexp block */
/* parameter loop */
extern unsigned long gh_nprops;
extern int gh_assert_failed;
#ifdef __cplusplus
}
#endif
#endif
