#ifndef COMMONSYM_GHOST_H
#define COMMONSYM_GHOST_H
#define MAXI 3
#ifdef __cplusplus
extern "C" {
#endif
extern int in_n;                 /* symbols already recorded under the name, before the new one (0..MAXI) */
extern int in_common[MAXI];      /* which of them are common symbols */
extern int gh_added, gh_added_to, gh_added_what;   /* add_common_instance calls: count, receiver, argument */
void w_common_region(void);
#ifdef __cplusplus
}
#endif
#endif
