/* C34 / C18: a COMMON symbol whose name is already carried by ANY list of symbols (common or not, <= 3 of them:
   BOUNDED) is attached to the first common symbol of that name - never to a symbol that is not common, never to
   itself - and no assertion fails.                                                                           */
#include "vstd_c.h"
#include "ghost.h"
int in_n, in_common[MAXI], gh_added, gh_added_to, gh_added_what;
void h_common_region(void)
{
  in_n = nondet_int(); __CPROVER_assume(0 <= in_n && in_n <= MAXI);
  int first_common = -1;
  for (int i = MAXI - 1; i >= 0; --i)
    {
      in_common[i] = nondet_int() != 0;
      if (i < in_n && in_common[i]) first_common = i;
    }
  gh_added = 0;
  w_common_region();
  __CPROVER_assert(gh_added == (first_common >= 0 ? 1 : 0), "the new common symbol is attached exactly when an earlier common symbol of its name exists");
  __CPROVER_assert(gh_added == 0 || (gh_added_to == first_common && gh_added_what == MAXI), "... to the first common symbol of that name");
  CANARY_h_common_region;
}
