/* Contracts for U-sysvhash.
   C34 (memory safety, no abort) : discharged as CBMC's pointer/bounds/assertion obligations on the
   real function for an arbitrary hash section (any size, any content), arbitrary symbols and
   arbitrary libelf failures - there is no well-formedness precondition.
   C37 (lookup agrees with the table): stated link by link over two arbitrary watched symbol
   indexes w and v (ELF gABI "Hash Table": bucket[hash % nbucket] heads a chain, chain[i] is the
   next index, STN_UNDEF ends it):
     first link : the head of the bucket of the queried name is visited;
     successor  : if w is visited and v = chain[w] is a valid next index, v is visited;
     reporting  : a visited symbol whose name equals the query is reported, and nothing else is.
   By induction over the chain (meta-argument), every symbol on the chain of the queried name is
   visited and the lookup finds the name exactly when it is on that chain.                      */
#include "vstd_c.h"
#include "hash_ghost.h"
typedef unsigned long size_t;
int gh_lc_phase; void *gh_ht_buf; unsigned long gh_ht_size, gh_hash, gh_w, gh_v, gh_calls, gh_w_visit_no, gh_cur_idx;
int gh_w_supported;
int gh_w_matches, gh_w_visited, gh_w_getsym_ok, gh_w_name_ok, gh_v_visited, gh_env_failed, gh_elf_class;
unsigned long gh_first; int gh_first_set;
unsigned long gh_created, gh_pushed, gh_w_created, gh_symtab_size, gh_symtab_entsize, gh_ht_index;

#define HT ((unsigned *) gh_ht_buf)
#define NWORDS (gh_ht_size / 4)
#define NB ((unsigned long) HT[0])
#define NC ((unsigned long) HT[1])
#define TABLE_FITS (gh_ht_size >= 8 && NB != 0 && NWORDS - 2 >= NB + NC)
#define BUCKET_HEAD ((unsigned long) HT[2 + gh_hash % NB])
#define CHAIN(i) ((unsigned long) HT[2 + NB + (i)])

int w_sysv_lookup(size_t ht_index, size_t sym_tab_index, int demangle);


void h_sysv_lookup(void)
{
  /* the section content: gh_ht_size bytes, held in an array of 32-bit words (typed, so that the
     verifier reads words instead of re-assembling bytes) */
  gh_ht_size = nondet_ulong();
  __CPROVER_assume(gh_ht_size <= (1UL << 24));       /* a 16 MiB .hash section */
  unsigned *words = malloc((gh_ht_size / 4 + 1) * sizeof(unsigned));
  __CPROVER_assume(words != 0);
  gh_ht_buf = words;
  gh_hash = nondet_ulong(); gh_w = nondet_ulong(); gh_v = nondet_ulong(); gh_w_matches = nondet_int();
  __CPROVER_assume(gh_hash <= 0xffffffffUL);                     /* ELF hash values are 32-bit */
  __CPROVER_assume(gh_w < (1UL << 31) && gh_v < (1UL << 31));   /* symbol indexes libelf can address (int) */
  gh_symtab_size = nondet_ulong(); gh_symtab_entsize = nondet_ulong(); gh_elf_class = nondet_int();
  gh_lc_phase = nondet_int();
  gh_calls = 0; gh_w_visited = 0; gh_w_getsym_ok = 0; gh_w_name_ok = 0; gh_v_visited = 0;
  gh_created = 0; gh_pushed = 0; gh_w_created = 0; gh_env_failed = 0; gh_first_set = 0; gh_w_supported = 0;
  size_t in_ht_index = nondet_ulong(), in_sym_tab_index = nondet_ulong(); int in_demangle = nondet_int();
  gh_ht_index = in_ht_index;
  /* the contract is stated here as assumptions (above) and assertions (below) around the call:
     goto-instrument --dfcc exhausts memory on this function (symbolic-size section buffer), so the
     frame (assigns) part of the contract is not checked for it */
  int ret = w_sysv_lookup(in_ht_index, in_sym_tab_index, in_demangle);
#define POST(c) __CPROVER_assert(c, "postcondition of lookup_symbol_from_sysv_hash_tab: " #c)
  /* reporting */
  POST((ret != 0) == (gh_created > 0));
  POST(gh_pushed == gh_created);
  POST((gh_w_visited && gh_w_getsym_ok && gh_w_name_ok && gh_w_matches && gh_w_supported) ==> (gh_w_created >= 1 && ret != 0));
  POST(gh_w_created >= 1 ==> (gh_w_matches && gh_w_visited));
  /* a table that does not fit its section, or a failing libelf, means "not found", never a crash */
  POST(!TABLE_FITS ==> (ret == 0 && gh_calls == 0));
  /* first link */
  /* gh_first is the bucket head the function read: buckets[hash % nbucket] (asserted where it is read) */
  POST((TABLE_FITS && !gh_env_failed) ==> gh_first_set);
  POST((gh_first_set && gh_first == gh_w && gh_w != 0 && gh_w < NC) ==> gh_w_visited);
  /* successor link */
  POST((TABLE_FITS && gh_w_visited && gh_w_getsym_ok && gh_w < NC && gh_v == CHAIN(gh_w)
        && gh_v != 0 && gh_v < NC && gh_w_visit_no < NC) ==> gh_v_visited);
  /* the walk is bounded by the size of the chain array (termination on cyclic chains) */
  POST(TABLE_FITS ==> gh_calls <= NC);
  CANARY_h_sysv_lookup;
}
