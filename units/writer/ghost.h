#ifndef WRITER_GHOST_H
#define WRITER_GHOST_H
#ifdef __cplusplus
extern "C" {
#endif
extern int gh_lc_phase, gh_lc_phase_a1;
extern unsigned long gh_vec_cap;   /* capacity of vectors the code fills itself (arbitrary) */
/* output stream ghost state: data handed to the stream is first "pending" (buffered); a write to
   the destination happens on flush()/close() or whenever the buffer spills, and may fail */
extern int g_pending;     /* some emitted data is still buffered in the stream */
extern int g_bad;         /* badbit: a write to the destination failed */
extern int g_failbit;     /* failbit: close() failed */
extern int g_lost;        /* some emitted data did not reach its destination */
extern int g_emitted;     /* number of emissions (vacuity guard) */
extern int g_raw_emitted; /* a free-form (unescaped) string was written into the document */
/* corpus ghost */
extern int gh_corpus_null, gh_corpus_empty;
extern unsigned long gh_ntus, gh_tus_written, gh_corpora_written;
#ifdef __cplusplus
}
#endif
#endif
