/* Contracts for U-writer.
   C36: write_corpus returns true only if everything it emitted has reached the destination:
        nothing lost, nothing still sitting in the stream's buffer (a failure of the implicit flush
        at exit or close would go unnoticed), for ANY pattern of buffering and write failures.
   C04: no free-form string (name, path, soname, version, id) is written into the document without
        passing through xml::escape_xml_string.                                                 */
#include "vstd_c.h"
#include "ghost.h"
int gh_lc_phase_a1; unsigned long gh_vec_cap;
int gh_lc_phase, g_pending, g_bad, g_failbit, g_lost, g_emitted, g_raw_emitted, gh_corpus_null, gh_corpus_empty;
unsigned long gh_ntus, gh_tus_written, gh_corpora_written;
int w_write_corpus(unsigned indent, int member_of_group);
int w_write_elf_symbol(unsigned indent, int null_sym);
int w_write_corpus_group(unsigned indent, int null_group);
int w_write_elf_symbol_reference(void);
int w_write_elf_needed(unsigned long n, unsigned indent);
int w_write_elf_symbol_aliases(void);
#define POST(c) __CPROVER_assert(c, "postcondition: " #c)
static void fresh_stream(void)
{ g_pending = 0; g_bad = 0; g_failbit = 0; g_lost = 0; g_emitted = 0; g_raw_emitted = 0; gh_lc_phase = nondet_int(); gh_lc_phase_a1 = nondet_int(); gh_vec_cap = nondet_ulong(); __CPROVER_assume(gh_vec_cap <= (1UL << 16)); }

void h_write_corpus(void)
{
  fresh_stream();
  gh_corpus_null = nondet_int(); gh_corpus_empty = nondet_int(); gh_ntus = nondet_ulong(); gh_tus_written = 0;
  __CPROVER_assume(gh_ntus <= (1UL << 20));
  unsigned in_indent = nondet_unsigned(); int in_group = nondet_int();
  __CPROVER_assume(in_indent <= 64);
  int r = w_write_corpus(in_indent, in_group);
  POST(r ==> (!g_lost && !g_pending));              /* C36 */
  POST(gh_corpus_null ==> !r);
  POST((r && !gh_corpus_null && !gh_corpus_empty) ==> (g_emitted && gh_tus_written == gh_ntus));   /* every TU is written */
  POST(!g_raw_emitted);                              /* C04 */
  CANARY_h_write_corpus;
}
void h_write_corpus_group(void)
{
  fresh_stream();
  gh_corpus_empty = nondet_int(); gh_ntus = nondet_ulong(); gh_corpora_written = 0;
  __CPROVER_assume(gh_ntus <= (1UL << 20));
  unsigned in_indent = nondet_unsigned(); int in_null = nondet_int() != 0;
  __CPROVER_assume(in_indent <= 64);
  int r = w_write_corpus_group(in_indent, in_null);
  POST(r ==> (!g_lost && !g_pending));              /* C36 */
  POST(in_null ==> !r);
  POST((r && !in_null && !gh_corpus_empty) ==> gh_corpora_written == gh_ntus);   /* every corpus of the group is written */
  POST(!g_raw_emitted);                              /* C04 */
  CANARY_h_write_corpus_group;
}
void h_write_elf_symbol(void)
{
  fresh_stream();
  unsigned in_indent = nondet_unsigned(); int in_null = nondet_int();
  __CPROVER_assume(in_indent <= 64);
  int r = w_write_elf_symbol(in_indent, in_null);
  POST(!g_raw_emitted);
  POST((r != 0) == (in_null == 0));
  POST(r ==> g_emitted);
  CANARY_h_write_elf_symbol;
}
void h_write_elf_symbol_reference(void)
{
  fresh_stream();
  int r = w_write_elf_symbol_reference();
  POST(!g_raw_emitted);
  POST(r && g_emitted);
  CANARY_h_write_elf_symbol_reference;
}
void h_write_elf_needed(void)
{
  fresh_stream();
  unsigned long in_n = nondet_ulong(); unsigned in_indent = nondet_unsigned();
  __CPROVER_assume(in_n <= (1UL << 20) && in_indent <= 64);
  int r = w_write_elf_needed(in_n, in_indent);
  POST(!g_raw_emitted);
  POST((r != 0) == (in_n != 0));
  CANARY_h_write_elf_needed;
}
void h_write_elf_symbol_aliases(void)
{
  fresh_stream();
  int r = w_write_elf_symbol_aliases();
  POST(!g_raw_emitted);                 /* alias ids are free-form symbol names: escaped */
  POST(r ==> g_emitted);
  POST(!r ==> !g_emitted);
  CANARY_h_write_elf_symbol_aliases;
}
