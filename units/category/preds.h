/* indexes of the change-detection predicates of abg-comp-filter.cc (ghost answers gh_pred[]) */
#ifndef CAT_PREDS_H
#define CAT_PREDS_H
enum pred_index {
  P_has_class_decl_only_def_change,
  P_has_enum_decl_only_def_change,
  P_class_diff_has_harmless_odr_violation_change,
  P_union_diff_has_harmless_changes,
  P_has_non_virtual_mem_fn_change,
  P_static_data_member_added_or_removed,
  P_has_data_member_replaced_by_anon_dm,
  P_has_enumerator_insertion,
  P_has_harmful_enum_change,
  P_has_harmless_enum_to_int_change,
  P_function_name_changed_but_not_symbol,
  P_has_fn_parm_type_top_cv_qual_change,
  P_has_fn_parm_type_cv_qual_change,
  P_has_fn_return_type_cv_qual_change,
  P_has_var_type_cv_qual_change,
  P_has_void_ptr_to_ptr_change,
  P_has_benign_infinite_array_change,
  P_non_static_data_member_added_or_removed,
  P_base_classes_added_or_removed,
  P_crc_changed,
  P_has_virtual_mem_fn_change,
  P_has_added_or_removed_function_parameters,
  P_access_changed,
  P_is_compatible_change,
  P_has_harmless_name_change,
  P_static_data_member_type_size_changed,
  P_type_size_changed,
  P_data_member_offset_changed,
  P_non_static_data_member_type_size_changed,
  P_COUNT
};
#endif
