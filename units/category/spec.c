/* Contracts for U-category.
   The numeric values of the diff_category enumerators are not part of any documented
   interface, so contracts never hard-code them: every harness first loads the current
   enumerator values (K[]) and default bitmaps (HARMLESS, HARMFUL) by calling the real
   functions, and the contracts are stated over those.  What the properties need:
   C05 - a node carrying a harmful category (size/offset, virtual member, parameter add/remove)
         that is not suppressed is never filtered out with default options;
   C07 - a node carrying only harmless categories is filtered out by default and not filtered
         with --harmless; the documented harmless kinds are in the harmless bitmap;
   C12 - presentation options do not influence the category word / redundancy / leaf settings. */
#include "vstd_c.h"
#include "preds.h"

int gh_pred[P_COUNT];
int gh_supprs_read;
unsigned K[23];
unsigned HARMLESS, HARMFUL;

enum { I_ACCESS, I_COMPAT, I_DECL_NAME, I_NON_VIRT, I_STATIC_DM, I_ENUM, I_SYM_ALIAS, I_UNION, I_DATA_MEMBER,
       I_SUPPRESSED, I_PRIVATE, I_SIZE_OFFSET, I_VIRTUAL, I_REDUNDANT, I_DECL_ONLY_DEF, I_TOP_CV, I_PARM_CV,
       I_RET_CV, I_PARM_ADD_REMOVE, I_VAR_CV, I_VOID_PTR, I_BENIGN_ARRAY, I_EVERYTHING };
#define SUPP K[I_SUPPRESSED]
#define PRIV K[I_PRIVATE]
#define RED K[I_REDUNDANT]
#define EVERYTHING K[I_EVERYTHING]

unsigned w_cat_enum(int i);
unsigned w_harmless_bitmap(void);
unsigned w_harmful_bitmap(void);

/* the filtering decision as the code documents it (helper-level contract, used by the
   property-level lemmas below) */
#define SPEC_FILTERED(cat, has_ctxt, allowed, show_red) \
  (!(has_ctxt) ? 0 : (allowed) == EVERYTHING ? 0 : ((cat) & (SUPP | PRIV)) ? 1 \
   : (!(show_red) && ((cat) & RED)) ? 1 : (cat) == 0 ? 0 : !(((cat) & ~RED) & ((allowed) & ~RED)))

unsigned w_cat_or(unsigned a, unsigned b)
__CPROVER_ensures(__CPROVER_return_value == (a | b))
__CPROVER_assigns()
CANARY_w_cat_or
;
unsigned w_cat_and(unsigned a, unsigned b)
__CPROVER_ensures(__CPROVER_return_value == (a & b))
__CPROVER_assigns()
CANARY_w_cat_and
;
unsigned w_cat_xor(unsigned a, unsigned b)
__CPROVER_ensures(__CPROVER_return_value == (a ^ b))
__CPROVER_assigns()
CANARY_w_cat_xor
;
unsigned w_cat_not(unsigned a)
__CPROVER_ensures(__CPROVER_return_value == ~a)
__CPROVER_assigns()
CANARY_w_cat_not
;
unsigned w_cat_oreq(unsigned *a, unsigned b)
__CPROVER_requires(__CPROVER_is_fresh(a, sizeof(*a)))
__CPROVER_ensures(*a == (__CPROVER_old(*a) | b) && __CPROVER_return_value == *a)
__CPROVER_assigns(*a)
CANARY_w_cat_oreq
;
unsigned w_cat_andeq(unsigned *a, unsigned b)
__CPROVER_requires(__CPROVER_is_fresh(a, sizeof(*a)))
__CPROVER_ensures(*a == (__CPROVER_old(*a) & b) && __CPROVER_return_value == *a)
__CPROVER_assigns(*a)
CANARY_w_cat_andeq
;

unsigned w_ctx_switch(unsigned allowed, int op, unsigned c)
__CPROVER_ensures(op == 0 ==> __CPROVER_return_value == (allowed | c))
__CPROVER_ensures(op == 1 ==> __CPROVER_return_value == (allowed & ~c))
__CPROVER_ensures((op != 0 && op != 1) ==> __CPROVER_return_value == c)
__CPROVER_assigns()
CANARY_w_ctx_switch
;

/* a fresh diff_context allows every category, shows redundant changes, is not in leaf mode */
void w_ctx_defaults(unsigned *out)
__CPROVER_requires(__CPROVER_is_fresh(out, 3 * sizeof(unsigned)))
__CPROVER_ensures(out[0] == EVERYTHING && out[1] == 1 && out[2] == 0)
__CPROVER_assigns(__CPROVER_object_whole(out))
CANARY_w_ctx_defaults
;

int w_priv_is_filtered_out(unsigned category, int has_ctxt, unsigned allowed, int show_redundant)
__CPROVER_ensures((__CPROVER_return_value != 0) == (SPEC_FILTERED(category, has_ctxt, allowed, show_redundant) != 0))
__CPROVER_assigns()
CANARY_w_priv_is_filtered_out
;

int w_diff_filter(int which, unsigned category, unsigned local_category, int has_canonical,
                  unsigned canonical_category, int has_changes, int has_local_changes,
                  unsigned allowed, int show_redundant)
__CPROVER_requires(0 <= which && which <= 3)
/* is_filtered_out: suppression of the canonical node wins, else the node's own categories decide */
__CPROVER_ensures(which == 0 ==> ((__CPROVER_return_value != 0) ==
   ((has_canonical && (canonical_category & (SUPP | PRIV))) ? 1 : (SPEC_FILTERED(category, 1, allowed, show_redundant) != 0))))
__CPROVER_ensures(which == 1 ==> ((__CPROVER_return_value != 0) == (SPEC_FILTERED(local_category, 1, allowed, show_redundant) != 0)))
/* to_be_reported <=> has_changes and not filtered out */
__CPROVER_ensures(which == 2 ==> ((__CPROVER_return_value != 0) ==
   (has_changes && !((has_canonical && (canonical_category & (SUPP | PRIV))) ? 1 : (SPEC_FILTERED(category, 1, allowed, show_redundant) != 0)))))
__CPROVER_ensures(which == 3 ==> ((__CPROVER_return_value != 0) ==
   (has_local_changes && !(SPEC_FILTERED(local_category, 1, allowed, show_redundant) != 0))))
__CPROVER_assigns()
CANARY_w_diff_filter
;

/* C12: options that only affect presentation never change the verdict-relevant state of the diff context */
void w_presentation_opts(unsigned verdict_bits, unsigned pres1, unsigned pres2, int n_suppr_paths, int *same, int *wired)
__CPROVER_requires(__CPROVER_is_fresh(same, 10 * sizeof(int)) && __CPROVER_is_fresh(wired, 5 * sizeof(int)))
__CPROVER_requires(0 <= n_suppr_paths && n_suppr_paths <= 2)
__CPROVER_ensures(same[0] && same[1] && same[2] && same[3] && same[4] && same[5] && same[6] && same[7] && same[8] && same[9])
__CPROVER_ensures(wired[0] && wired[1] && wired[2] && wired[3] && wired[4])
__CPROVER_assigns(__CPROVER_object_whole(same), __CPROVER_object_whole(wired), gh_supprs_read)
CANARY_w_presentation_opts
;

/* option wiring of abidiff: harmless categories are switched off unless --harmless, harmful ones
   only with --no-harmful; redundant changes are shown with --redundant or in leaf mode */
void w_set_ctx_from_opts(int show_harmless, int show_harmful, int show_redundant, int leaf_only,
                         int n_suppr_paths, int no_default_supprs, unsigned *out)
__CPROVER_requires(__CPROVER_is_fresh(out, 3 * sizeof(unsigned)))
__CPROVER_requires(0 <= n_suppr_paths && n_suppr_paths <= 2)
__CPROVER_ensures(out[0] == (EVERYTHING & ~(show_harmless ? 0u : HARMLESS) & ~(show_harmful ? 0u : HARMFUL)))
__CPROVER_ensures(out[1] == ((show_redundant || leaf_only) ? 1u : 0u))
__CPROVER_ensures(out[2] == (leaf_only ? 1u : 0u))
__CPROVER_ensures((gh_supprs_read != 0) == (n_suppr_paths > 0))
__CPROVER_assigns(__CPROVER_object_whole(out), gh_supprs_read)
CANARY_w_set_ctx_from_opts
;

/* property-level lemmas on the pipeline "context from options; is this node filtered out?" */
int w_node_filtered_under_opts(int show_harmless, int show_harmful, int show_redundant, int leaf_only,
                               unsigned category, int has_canonical, unsigned canonical_category)
/* C05: harmful and not suppressed => reported (default options keep harmful categories on) */
__CPROVER_ensures((show_harmful && (category & HARMFUL) != 0 && (category & (SUPP | PRIV)) == 0
                   && !(has_canonical && (canonical_category & (SUPP | PRIV)))
                   && (show_redundant || leaf_only || !(category & RED)))
                  ==> __CPROVER_return_value == 0)
/* C07: only harmless categories => filtered by default ... */
__CPROVER_ensures((!show_harmless && category != 0 && (category & ~HARMLESS) == 0)
                  ==> __CPROVER_return_value != 0)
/* ... and shown with --harmless */
__CPROVER_ensures((show_harmless && category != 0 && (category & ~HARMLESS) == 0
                   && !(has_canonical && (canonical_category & (SUPP | PRIV))))
                  ==> __CPROVER_return_value == 0)
/* a node without any category is never filtered unless its class of equivalence is suppressed */
__CPROVER_ensures((category == 0 && !(has_canonical && (canonical_category & (SUPP | PRIV))))
                  ==> __CPROVER_return_value == 0)
/* suppressed nodes stay hidden whenever some category is switched off (i.e. by default) */
__CPROVER_ensures(((category & (SUPP | PRIV)) && !(show_harmless && show_harmful)) ==> __CPROVER_return_value != 0)
__CPROVER_assigns(gh_supprs_read)
CANARY_w_node_filtered_under_opts
;

/* categorization.  The predicate -> category table is the documented one (doc/manuals
   abidiff.rst --harmless / libabigail-concepts; properties C05 and C07). */
#define PR(x) (gh_pred[P_##x] != 0)
#define DECL_ONLY (PR(has_class_decl_only_def_change) || PR(has_enum_decl_only_def_change))
#define HARMFUL_ADD \
  (((!DECL_ONLY && (PR(type_size_changed) || PR(data_member_offset_changed) \
                    || PR(non_static_data_member_type_size_changed) \
                    || PR(non_static_data_member_added_or_removed) || PR(base_classes_added_or_removed) \
                    || PR(has_harmful_enum_change) || PR(crc_changed))) ? K[I_SIZE_OFFSET] : 0u) \
   | (PR(has_virtual_mem_fn_change) ? K[I_VIRTUAL] : 0u) \
   | (PR(has_added_or_removed_function_parameters) ? K[I_PARM_ADD_REMOVE] : 0u))
#define HARMLESS_ADD \
  ((DECL_ONLY ? K[I_DECL_ONLY_DEF] : 0u) \
   | (PR(access_changed) ? K[I_ACCESS] : 0u) \
   | (PR(is_compatible_change) ? K[I_COMPAT] : 0u) \
   | ((PR(has_harmless_name_change) || PR(class_diff_has_harmless_odr_violation_change)) ? K[I_DECL_NAME] : 0u) \
   | (PR(union_diff_has_harmless_changes) ? K[I_UNION] : 0u) \
   | (PR(has_non_virtual_mem_fn_change) ? K[I_NON_VIRT] : 0u) \
   | ((PR(static_data_member_added_or_removed) || PR(static_data_member_type_size_changed)) ? K[I_STATIC_DM] : 0u) \
   | (PR(has_data_member_replaced_by_anon_dm) ? K[I_DATA_MEMBER] : 0u) \
   | (((PR(has_enumerator_insertion) && !PR(has_harmful_enum_change)) || PR(has_harmless_enum_to_int_change)) ? K[I_ENUM] : 0u) \
   | (PR(function_name_changed_but_not_symbol) ? K[I_SYM_ALIAS] : 0u) \
   | (PR(has_fn_parm_type_top_cv_qual_change) ? K[I_TOP_CV] : 0u) \
   | (PR(has_fn_parm_type_cv_qual_change) ? K[I_PARM_CV] : 0u) \
   | (PR(has_fn_return_type_cv_qual_change) ? K[I_RET_CV] : 0u) \
   | (PR(has_var_type_cv_qual_change) ? K[I_VAR_CV] : 0u) \
   | (PR(has_void_ptr_to_ptr_change) ? K[I_VOID_PTR] : 0u) \
   | (PR(has_benign_infinite_array_change) ? K[I_BENIGN_ARRAY] : 0u))
#define ADDED(which) ((which) == 0 ? HARMLESS_ADD : HARMFUL_ADD)

#define ANY_HARMLESS_PRED \
  (DECL_ONLY || PR(access_changed) || PR(is_compatible_change) || PR(has_harmless_name_change) \
   || PR(class_diff_has_harmless_odr_violation_change) || PR(union_diff_has_harmless_changes) \
   || PR(has_non_virtual_mem_fn_change) || PR(static_data_member_added_or_removed) \
   || PR(static_data_member_type_size_changed) || PR(has_data_member_replaced_by_anon_dm) \
   || PR(has_enumerator_insertion) || PR(has_harmless_enum_to_int_change) \
   || PR(function_name_changed_but_not_symbol) || PR(has_fn_parm_type_top_cv_qual_change) \
   || PR(has_fn_parm_type_cv_qual_change) || PR(has_fn_return_type_cv_qual_change) \
   || PR(has_var_type_cv_qual_change) || PR(has_void_ptr_to_ptr_change) || PR(has_benign_infinite_array_change))
#define NEWBITS (out[0] & ~cat0)

int w_categorize(int which, int pre, int has_changes, int has_canonical,
                 unsigned cat0, unsigned local0, unsigned ccat0, unsigned clocal0, unsigned *out)
__CPROVER_requires(which == 0 || which == 1)
__CPROVER_requires(__CPROVER_is_fresh(out, 4 * sizeof(unsigned)))
__CPROVER_ensures(__CPROVER_return_value != 0)
/* nothing happens on unchanged nodes or on the post-order visit */
__CPROVER_ensures((!has_changes || !pre) ==>
                  (out[0] == cat0 && out[1] == local0 && out[2] == ccat0 && out[3] == clocal0))
/* categories are only ever added, the same ones locally, inherited and on the canonical node
   (which diff::is_filtered_out consults) */
__CPROVER_ensures((out[0] & cat0) == cat0 && (out[1] & local0) == local0 && (out[2] & ccat0) == ccat0 && (out[3] & clocal0) == clocal0)
__CPROVER_ensures((out[0] | local0) == (out[1] | cat0))
__CPROVER_ensures(has_canonical ==> ((out[2] | cat0) == (out[0] | ccat0) && (out[3] | cat0) == (out[0] | clocal0)))
__CPROVER_ensures(!has_canonical ==> (out[2] == ccat0 && out[3] == clocal0))
/* harmful categorization: exactly the documented predicate -> category table (C05 needs "=>",
   C07 needs "<=": a harmless-only change must not be marked harmful) */
__CPROVER_ensures((which == 1 && has_changes && pre) ==> (out[0] == (cat0 | HARMFUL_ADD)))
/* harmless categorization: only harmless bits, none without a harmless predicate, and the
   documented harmless kinds of C07 get their category */
__CPROVER_ensures(which == 0 ==> ((NEWBITS & ~HARMLESS) == 0))
__CPROVER_ensures((which == 0 && !ANY_HARMLESS_PRED) ==> NEWBITS == 0)
__CPROVER_ensures((which == 0 && has_changes && pre && PR(access_changed)) ==> (out[0] & K[I_ACCESS]))
__CPROVER_ensures((which == 0 && has_changes && pre && PR(is_compatible_change)) ==> (out[0] & K[I_COMPAT]))
__CPROVER_ensures((which == 0 && has_changes && pre && PR(has_harmless_name_change)) ==> (out[0] & K[I_DECL_NAME]))
__CPROVER_ensures((which == 0 && has_changes && pre && PR(has_non_virtual_mem_fn_change)) ==> (out[0] & K[I_NON_VIRT]))
__CPROVER_ensures((which == 0 && has_changes && pre && PR(has_enumerator_insertion) && !PR(has_harmful_enum_change)) ==> (out[0] & K[I_ENUM]))
__CPROVER_ensures((which == 0 && has_changes && pre && PR(has_fn_parm_type_top_cv_qual_change)) ==> (out[0] & K[I_TOP_CV]))
__CPROVER_ensures(which == 1 ==> ((NEWBITS & ~HARMFUL) == 0))
__CPROVER_assigns(__CPROVER_object_whole(out))
CANARY_w_categorize
;

/* node-level end-to-end lemma (C05 / C07): categorize a fresh changed node, then filter */
#define C05_PRED \
  ((!DECL_ONLY && (PR(type_size_changed) || PR(data_member_offset_changed) \
                   || PR(non_static_data_member_type_size_changed) \
                   || PR(non_static_data_member_added_or_removed) || PR(base_classes_added_or_removed) \
                   || PR(has_harmful_enum_change))) \
   || PR(has_virtual_mem_fn_change) || PR(has_added_or_removed_function_parameters))
int w_node_pipeline(int show_harmless, int show_harmful, int show_redundant, int leaf_only, int has_canonical)
/* C05: a node on which a harmful predicate fires is reported (default options: show_harmful) */
__CPROVER_ensures((show_harmful && C05_PRED) ==> __CPROVER_return_value == 0)
/* C05: a changed node on which no predicate fires (e.g. a changed return type) is reported */
__CPROVER_ensures((!ANY_HARMLESS_PRED && HARMFUL_ADD == 0) ==> __CPROVER_return_value == 0)
/* C07: a node on which only harmless predicates fire is filtered by default and shown with --harmless */
__CPROVER_ensures((!show_harmless && HARMFUL_ADD == 0 && ANY_HARMLESS_PRED
                   && (PR(access_changed) || PR(is_compatible_change) || PR(has_harmless_name_change)
                       || PR(has_non_virtual_mem_fn_change) || PR(has_fn_parm_type_top_cv_qual_change)
                       || (PR(has_enumerator_insertion) && !PR(has_harmful_enum_change))))
                  ==> __CPROVER_return_value != 0)
__CPROVER_ensures((show_harmless && HARMFUL_ADD == 0) ==> __CPROVER_return_value == 0)
__CPROVER_assigns(gh_supprs_read)
CANARY_w_node_pipeline
;

/* ------------------------------------------------------------------ harnesses */
static void load_constants(void)
{
  K[0] = w_cat_enum(0); K[1] = w_cat_enum(1); K[2] = w_cat_enum(2); K[3] = w_cat_enum(3);
  K[4] = w_cat_enum(4); K[5] = w_cat_enum(5); K[6] = w_cat_enum(6); K[7] = w_cat_enum(7);
  K[8] = w_cat_enum(8); K[9] = w_cat_enum(9); K[10] = w_cat_enum(10); K[11] = w_cat_enum(11);
  K[12] = w_cat_enum(12); K[13] = w_cat_enum(13); K[14] = w_cat_enum(14); K[15] = w_cat_enum(15);
  K[16] = w_cat_enum(16); K[17] = w_cat_enum(17); K[18] = w_cat_enum(18); K[19] = w_cat_enum(19);
  K[20] = w_cat_enum(20); K[21] = w_cat_enum(21); K[22] = w_cat_enum(22);
  HARMLESS = w_harmless_bitmap();
  HARMFUL = w_harmful_bitmap();
}

/* lemma harness (assertions over the real enum and bitmap functions) */
void h_cat_lattice(void)
{
  load_constants();
  int in_i = nondet_int(), in_j = nondet_int();
  __CPROVER_assume(0 <= in_i && in_i <= 21 && 0 <= in_j && in_j <= 21);
  __CPROVER_assert(K[in_i] != 0 && (K[in_i] & (K[in_i] - 1)) == 0, "every diff_category enumerator is a single bit");
  __CPROVER_assert(in_i == in_j || K[in_i] != K[in_j], "diff_category enumerators are pairwise distinct");
  unsigned all = 0;
  all = K[0] | K[1] | K[2] | K[3] | K[4] | K[5] | K[6] | K[7] | K[8] | K[9] | K[10] | K[11] | K[12] | K[13]
        | K[14] | K[15] | K[16] | K[17] | K[18] | K[19] | K[20] | K[21];
  __CPROVER_assert((EVERYTHING & all) == all, "EVERYTHING_CATEGORY contains every enumerator");
  __CPROVER_assert((HARMLESS & HARMFUL) == 0, "harmless and harmful bitmaps are disjoint");
  __CPROVER_assert((HARMLESS | HARMFUL | SUPP | PRIV | RED) == EVERYTHING,
                   "every category is harmless, harmful, or one of suppressed/private/redundant");
  __CPROVER_assert(((HARMLESS | HARMFUL) & (SUPP | PRIV | RED)) == 0,
                   "suppressed/private/redundant are in neither default bitmap");
  /* C05: the categories the harmful categorization assigns are in the harmful bitmap */
  __CPROVER_assert((HARMFUL & K[I_SIZE_OFFSET]) && (HARMFUL & K[I_VIRTUAL]) && (HARMFUL & K[I_PARM_ADD_REMOVE]),
                   "size/offset, virtual-member and parameter add/remove changes are harmful");
  /* C07: the documented harmless kinds are in the harmless bitmap */
  __CPROVER_assert((HARMLESS & K[I_ENUM]) && (HARMLESS & K[I_ACCESS]) && (HARMLESS & K[I_NON_VIRT])
                   && (HARMLESS & K[I_COMPAT]) && (HARMLESS & K[I_DECL_NAME]) && (HARMLESS & K[I_TOP_CV]),
                   "enumerator insertion, access, non-virtual member function, compatible typedef, harmless name and top-cv changes are harmless");
  CANARY_h_cat_lattice;
}

void h_cat_or(void) { w_cat_or(nondet_unsigned(), nondet_unsigned()); }
void h_cat_and(void) { w_cat_and(nondet_unsigned(), nondet_unsigned()); }
void h_cat_xor(void) { w_cat_xor(nondet_unsigned(), nondet_unsigned()); }
void h_cat_not(void) { w_cat_not(nondet_unsigned()); }
void h_cat_oreq(void) { unsigned in_a = nondet_unsigned(); w_cat_oreq(&in_a, nondet_unsigned()); }
void h_cat_andeq(void) { unsigned in_a = nondet_unsigned(); w_cat_andeq(&in_a, nondet_unsigned()); }
void h_ctx_switch(void) { w_ctx_switch(nondet_unsigned(), nondet_int(), nondet_unsigned()); }
void h_ctx_defaults(void) { load_constants(); unsigned out[3]; w_ctx_defaults(out); }
void h_priv_is_filtered_out(void)
{
  load_constants();
  unsigned in_category = nondet_unsigned(), in_allowed = nondet_unsigned();
  int in_has_ctxt = nondet_int(), in_show_redundant = nondet_int();
  w_priv_is_filtered_out(in_category, in_has_ctxt, in_allowed, in_show_redundant);
}
void h_diff_filter(void)
{
  load_constants();
  int in_which = nondet_int(); unsigned in_category = nondet_unsigned(), in_local = nondet_unsigned();
  int in_has_canonical = nondet_int(); unsigned in_canonical_category = nondet_unsigned();
  int in_has_changes = nondet_int(), in_has_local_changes = nondet_int();
  unsigned in_allowed = nondet_unsigned(); int in_show_redundant = nondet_int();
  w_diff_filter(in_which, in_category, in_local, in_has_canonical, in_canonical_category, in_has_changes,
                in_has_local_changes, in_allowed, in_show_redundant);
}
void h_presentation_opts(void)
{
  load_constants();
  int same[10], wired[5];
  gh_supprs_read = 0;
  unsigned in_verdict_bits = nondet_unsigned(), in_pres1 = nondet_unsigned(), in_pres2 = nondet_unsigned(); int in_n = nondet_int();
  w_presentation_opts(in_verdict_bits, in_pres1, in_pres2, in_n, same, wired);
}
void h_set_ctx_from_opts(void)
{
  load_constants();
  unsigned out[3];
  gh_supprs_read = 0;
  int in_show_harmless = nondet_int(), in_show_harmful = nondet_int(), in_show_redundant = nondet_int(),
      in_leaf_only = nondet_int(), in_n_suppr_paths = nondet_int(), in_no_default_supprs = nondet_int();
  w_set_ctx_from_opts(in_show_harmless, in_show_harmful, in_show_redundant, in_leaf_only, in_n_suppr_paths,
                      in_no_default_supprs, out);
}
void h_node_filtered_under_opts(void)
{
  load_constants();
  int in_show_harmless = nondet_int(), in_show_harmful = nondet_int(), in_show_redundant = nondet_int(),
      in_leaf_only = nondet_int();
  unsigned in_category = nondet_unsigned(); int in_has_canonical = nondet_int();
  unsigned in_canonical_category = nondet_unsigned();
  w_node_filtered_under_opts(in_show_harmless, in_show_harmful, in_show_redundant, in_leaf_only, in_category,
                             in_has_canonical, in_canonical_category);
}
void h_categorize(void)
{
  load_constants();
  __CPROVER_havoc_object(gh_pred);   /* every combination of predicate answers */
  unsigned out[4];
  int in_which = nondet_int(), in_pre = nondet_int(), in_has_changes = nondet_int(), in_has_canonical = nondet_int();
  unsigned in_cat0 = nondet_unsigned(), in_local0 = nondet_unsigned(), in_ccat0 = nondet_unsigned(),
           in_clocal0 = nondet_unsigned();
  w_categorize(in_which, in_pre, in_has_changes, in_has_canonical, in_cat0, in_local0, in_ccat0, in_clocal0, out);
}
void h_node_pipeline(void)
{
  load_constants();
  __CPROVER_havoc_object(gh_pred);
  int in_show_harmless = nondet_int(), in_show_harmful = nondet_int(), in_show_redundant = nondet_int(),
      in_leaf_only = nondet_int(), in_has_canonical = nondet_int();
  w_node_pipeline(in_show_harmless, in_show_harmful, in_show_redundant, in_leaf_only, in_has_canonical);
}
