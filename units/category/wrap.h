// extern "C" wrappers for U-category (no logic beyond building the objects the real functions need)
using namespace abigail::comparison;
extern "C" {
// index -> enumerator (0..21 in declaration order, 22 = EVERYTHING_CATEGORY)
unsigned w_cat_enum(int i)
{
  switch (i)
    {
    case 0: return ACCESS_CHANGE_CATEGORY;
    case 1: return COMPATIBLE_TYPE_CHANGE_CATEGORY;
    case 2: return HARMLESS_DECL_NAME_CHANGE_CATEGORY;
    case 3: return NON_VIRT_MEM_FUN_CHANGE_CATEGORY;
    case 4: return STATIC_DATA_MEMBER_CHANGE_CATEGORY;
    case 5: return HARMLESS_ENUM_CHANGE_CATEGORY;
    case 6: return HARMLESS_SYMBOL_ALIAS_CHANGE_CATEGORY;
    case 7: return HARMLESS_UNION_CHANGE_CATEGORY;
    case 8: return HARMLESS_DATA_MEMBER_CHANGE_CATEGORY;
    case 9: return SUPPRESSED_CATEGORY;
    case 10: return PRIVATE_TYPE_CATEGORY;
    case 11: return SIZE_OR_OFFSET_CHANGE_CATEGORY;
    case 12: return VIRTUAL_MEMBER_CHANGE_CATEGORY;
    case 13: return REDUNDANT_CATEGORY;
    case 14: return TYPE_DECL_ONLY_DEF_CHANGE_CATEGORY;
    case 15: return FN_PARM_TYPE_TOP_CV_CHANGE_CATEGORY;
    case 16: return FN_PARM_TYPE_CV_CHANGE_CATEGORY;
    case 17: return FN_RETURN_TYPE_CV_CHANGE_CATEGORY;
    case 18: return FN_PARM_ADD_REMOVE_CHANGE_CATEGORY;
    case 19: return VAR_TYPE_CV_CHANGE_CATEGORY;
    case 20: return VOID_PTR_TO_PTR_CHANGE_CATEGORY;
    case 21: return BENIGN_INFINITE_ARRAY_CHANGE_CATEGORY;
    case 22: return EVERYTHING_CATEGORY;
    default: return NO_CHANGE_CATEGORY;
    }
}
unsigned w_cat_or(unsigned a, unsigned b) {return static_cast<diff_category>(a) | static_cast<diff_category>(b);}
unsigned w_cat_and(unsigned a, unsigned b) {return static_cast<diff_category>(a) & static_cast<diff_category>(b);}
unsigned w_cat_xor(unsigned a, unsigned b) {return static_cast<diff_category>(a) ^ static_cast<diff_category>(b);}
unsigned w_cat_not(unsigned a) {return ~static_cast<diff_category>(a);}
unsigned w_cat_oreq(unsigned* a, unsigned b)
{diff_category c = static_cast<diff_category>(*a); diff_category& r = (c |= static_cast<diff_category>(b)); *a = c; return r;}
unsigned w_cat_andeq(unsigned* a, unsigned b)
{diff_category c = static_cast<diff_category>(*a); diff_category& r = (c &= static_cast<diff_category>(b)); *a = c; return r;}
unsigned w_harmless_bitmap(void) {return get_default_harmless_categories_bitmap();}
unsigned w_harmful_bitmap(void) {return get_default_harmful_categories_bitmap();}

// diff_context category switches: start from `allowed`, apply one operation, return the word
unsigned w_ctx_switch(unsigned allowed, int op, unsigned c)
{
  diff_context ctxt;
  ctxt.set_allowed_category(static_cast<diff_category>(allowed));
  if (op == 0) ctxt.switch_categories_on(static_cast<diff_category>(c));
  else if (op == 1) ctxt.switch_categories_off(static_cast<diff_category>(c));
  else ctxt.set_allowed_category(static_cast<diff_category>(c));
  return ctxt.get_allowed_category();
}
// a freshly constructed context: out[0] = allowed word, out[1] = show_redundant_changes, out[2] = leaf mode
void w_ctx_defaults(unsigned* out)
{
  diff_context ctxt;
  out[0] = ctxt.get_allowed_category(); out[1] = ctxt.show_redundant_changes(); out[2] = ctxt.show_leaf_changes_only();
}

// diff::priv::is_filtered_out(category) on a node whose context (if any) has the given settings
int w_priv_is_filtered_out(unsigned category, int has_ctxt, unsigned allowed, int show_redundant)
{
  diff_context ctxt;
  ctxt.set_allowed_category(static_cast<diff_category>(allowed));
  ctxt.show_redundant_changes(show_redundant != 0);
  diff d(has_ctxt ? &ctxt : 0, NO_CHANGE_CATEGORY, NO_CHANGE_CATEGORY);
  return d.priv_->is_filtered_out(static_cast<diff_category>(category));
}

// which: 0 is_filtered_out, 1 is_filtered_out_wrt_non_inherited_categories, 2 to_be_reported,
//        3 has_local_changes_to_be_reported
int w_diff_filter(int which, unsigned category, unsigned local_category, int has_canonical,
		  unsigned canonical_category, int has_changes, int has_local_changes,
		  unsigned allowed, int show_redundant)
{
  diff_context ctxt;
  ctxt.set_allowed_category(static_cast<diff_category>(allowed));
  ctxt.show_redundant_changes(show_redundant != 0);
  diff d(&ctxt, static_cast<diff_category>(category), static_cast<diff_category>(local_category));
  diff canon(&ctxt, static_cast<diff_category>(canonical_category), static_cast<diff_category>(canonical_category));
  if (has_canonical) d.priv_->canonical_diff_ = &canon;
  d.gh_has_changes_ = has_changes; d.gh_has_local_changes_ = has_local_changes;
  switch (which)
    {
    case 0: return d.is_filtered_out();
    case 1: return d.is_filtered_out_wrt_non_inherited_categories();
    case 2: return d.to_be_reported();
    default: return d.has_local_changes_to_be_reported();
    }
}

// set_diff_context_from_opts with the options that matter for categories/verdict; the rest keep
// the values of options::options().  out[0] allowed word, out[1] show_redundant_changes, out[2] leaf
void w_set_ctx_from_opts(int show_harmless, int show_harmful, int show_redundant, int leaf_only,
			 int n_suppr_paths, int no_default_supprs, unsigned* out)
{
  options opts;
  opts.show_harmless_changes = show_harmless != 0;
  opts.show_harmful_changes = show_harmful != 0;
  opts.show_redundant_changes = show_redundant != 0;
  opts.leaf_changes_only = leaf_only != 0;
  opts.no_default_supprs = no_default_supprs != 0;
  for (int i = 0; i < n_suppr_paths; ++i) opts.suppression_paths.push_back(string("s"));
  diff_context ctxt;
  set_diff_context_from_opts(&ctxt, opts);
  out[0] = ctxt.get_allowed_category(); out[1] = ctxt.show_redundant_changes(); out[2] = ctxt.show_leaf_changes_only();
}

// C12: two option sets that agree on everything except the presentation options.  out[k] = 1 iff
// verdict-relevant context field k is the same in both contexts; out2[k] = the presentation field k
// of the FIRST context follows its option (wiring is not lost)
void w_presentation_opts(unsigned verdict_bits, unsigned pres1, unsigned pres2, int n_suppr_paths, int* same, int* wired)
{
  options o1, o2;
  options* os[2]; os[0] = &o1; os[1] = &o2;
  for (int k = 0; k < 2; ++k)
    {
      options& o = *os[k];
      o.leaf_changes_only = (verdict_bits >> 0) & 1; o.show_stats_only = (verdict_bits >> 1) & 1;
      o.show_all_fns = (verdict_bits >> 2) & 1; o.show_deleted_fns = (verdict_bits >> 3) & 1; o.show_changed_fns = (verdict_bits >> 4) & 1;
      o.show_added_fns = (verdict_bits >> 5) & 1; o.show_all_vars = (verdict_bits >> 6) & 1; o.show_deleted_vars = (verdict_bits >> 7) & 1;
      o.show_changed_vars = (verdict_bits >> 8) & 1; o.show_added_vars = (verdict_bits >> 9) & 1; o.ignore_soname = (verdict_bits >> 10) & 1;
      o.show_redundant_changes = (verdict_bits >> 11) & 1; o.show_symbols_not_referenced_by_debug_info = (verdict_bits >> 12) & 1;
      o.show_added_syms = (verdict_bits >> 13) & 1; o.show_all_types = (verdict_bits >> 14) & 1; o.show_impacted_interfaces = (verdict_bits >> 15) & 1;
      o.show_harmless_changes = (verdict_bits >> 16) & 1; o.show_harmful_changes = (verdict_bits >> 17) & 1; o.no_default_supprs = (verdict_bits >> 18) & 1;
      for (int i = 0; i < n_suppr_paths; ++i) o.suppression_paths.push_back(string("s"));
      unsigned pres = k == 0 ? pres1 : pres2;
      // the presentation options of the property statement
      o.show_locs = (pres >> 0) & 1; o.show_hexadecimal_values = (pres >> 1) & 1; o.show_offsets_sizes_in_bits = (pres >> 2) & 1;
      o.show_linkage_names = (pres >> 3) & 1; o.show_relative_offset_changes = (pres >> 4) & 1;
    }
  diff_context c1, c2;
  set_diff_context_from_opts(&c1, o1);
  set_diff_context_from_opts(&c2, o2);
  abigail::comparison::diff_context::priv& a = *c1.priv_; abigail::comparison::diff_context::priv& b = *c2.priv_;
  same[0] = a.allowed_category_ == b.allowed_category_;
  same[1] = a.leaf_changes_only_ == b.leaf_changes_only_;
  same[2] = a.show_stats_only_ == b.show_stats_only_;
  same[3] = a.show_soname_change_ == b.show_soname_change_ && a.show_architecture_change_ == b.show_architecture_change_;
  same[4] = a.show_deleted_fns_ == b.show_deleted_fns_ && a.show_changed_fns_ == b.show_changed_fns_ && a.show_added_fns_ == b.show_added_fns_;
  same[5] = a.show_deleted_vars_ == b.show_deleted_vars_ && a.show_changed_vars_ == b.show_changed_vars_ && a.show_added_vars_ == b.show_added_vars_;
  same[6] = a.show_redundant_changes_ == b.show_redundant_changes_;
  same[7] = a.show_syms_unreferenced_by_di_ == b.show_syms_unreferenced_by_di_ && a.show_added_syms_unreferenced_by_di_ == b.show_added_syms_unreferenced_by_di_;
  same[8] = a.show_unreachable_types_ == b.show_unreachable_types_ && a.show_impacted_interfaces_ == b.show_impacted_interfaces_;
  same[9] = c1.s_.n_ == c2.s_.n_;
  wired[0] = a.show_locs_ == (bool) (pres1 & 1); wired[1] = a.hex_values_ == (bool) ((pres1 >> 1) & 1);
  wired[2] = a.show_offsets_sizes_in_bits_ == (bool) ((pres1 >> 2) & 1); wired[3] = a.show_linkage_names_ == (bool) ((pres1 >> 3) & 1);
  wired[4] = a.show_relative_offset_changes_ == (bool) ((pres1 >> 4) & 1);
}

// the pipeline abidiff runs for one node: context from options, then the filtering decision
int w_node_filtered_under_opts(int show_harmless, int show_harmful, int show_redundant, int leaf_only,
			       unsigned category, int has_canonical, unsigned canonical_category)
{
  options opts;
  opts.show_harmless_changes = show_harmless != 0;
  opts.show_harmful_changes = show_harmful != 0;
  opts.show_redundant_changes = show_redundant != 0;
  opts.leaf_changes_only = leaf_only != 0;
  diff_context ctxt;
  set_diff_context_from_opts(&ctxt, opts);
  diff d(&ctxt, static_cast<diff_category>(category), static_cast<diff_category>(category));
  diff canon(&ctxt, static_cast<diff_category>(canonical_category), static_cast<diff_category>(canonical_category));
  if (has_canonical) d.priv_->canonical_diff_ = &canon;
  return d.is_filtered_out();
}

// categorization: which 0 = harmless, 1 = harmful.  out[0] category of d, out[1] local category of d,
// out[2] category of canonical, out[3] local category of canonical
int w_categorize(int which, int pre, int has_changes, int has_canonical,
		 unsigned cat0, unsigned local0, unsigned ccat0, unsigned clocal0, unsigned* out)
{
  diff_context ctxt;
  diff d(&ctxt, static_cast<diff_category>(cat0), static_cast<diff_category>(local0));
  diff canon(&ctxt, static_cast<diff_category>(ccat0), static_cast<diff_category>(clocal0));
  if (has_canonical) d.priv_->canonical_diff_ = &canon;
  d.gh_has_changes_ = has_changes;
  bool r = which == 0 ? filtering::categorize_harmless_diff_node(&d, pre != 0)
		      : filtering::categorize_harmful_diff_node(&d, pre != 0);
  out[0] = d.get_category(); out[1] = d.get_local_category();
  out[2] = canon.get_category(); out[3] = canon.get_local_category();
  return r;
}

// what abidiff does to one changed diff node: context from options, the harmless_harmful_filter
// visit (pre-order), then the filtering decision.  The node starts without any category.
int w_node_pipeline(int show_harmless, int show_harmful, int show_redundant, int leaf_only, int has_canonical)
{
  options opts;
  opts.show_harmless_changes = show_harmless != 0;
  opts.show_harmful_changes = show_harmful != 0;
  opts.show_redundant_changes = show_redundant != 0;
  opts.leaf_changes_only = leaf_only != 0;
  diff_context ctxt;
  set_diff_context_from_opts(&ctxt, opts);
  diff d(&ctxt, NO_CHANGE_CATEGORY, NO_CHANGE_CATEGORY);
  diff canon(&ctxt, NO_CHANGE_CATEGORY, NO_CHANGE_CATEGORY);
  if (has_canonical) d.priv_->canonical_diff_ = &canon;
  d.gh_has_changes_ = 1;
  filtering::harmless_harmful_filter f;
  f.visit(&d, true);
  return d.is_filtered_out();
}
}
