/* Contract on the real main of tools/abicompat.cc (C08, C09), every path under every outcome of the
   stubbed library calls:
   C08: the exit status uses bits 1,2,4,8 only; 8 implies 4; 2 implies 1; when no error occurred and a
        comparison ran, bit 4 <=> has_net_changes() and (normal mode) bit 8 <=> has_incompatible_changes().
   C09: an application or library input that cannot be checked, recognized or loaded gives the error bit. */
#include "vstd_c.h"
int g_cmdline_error, g_version_only, g_load_failed, g_files_suppressed, g_compared, g_net, g_incompat, g_reported, g_weak, g_list_only, g_opt_conflict;
int w_abicompat_main(void);
#define POST(c) __CPROVER_assert(c, "postcondition: " #c)
void h_abicompat_main(void)
{
  g_cmdline_error = 0; g_version_only = 0; g_load_failed = 0; g_files_suppressed = 0; g_compared = 0; g_net = 0; g_incompat = 0; g_reported = 0; g_weak = 0; g_list_only = 0; g_opt_conflict = 0;
  int r = w_abicompat_main();
  POST((r & ~15) == 0);
  POST((r & 8) ==> (r & 4));
  POST((r & 2) ==> (r & 1));
  POST(g_cmdline_error ==> (r & 1));
  POST(g_load_failed ==> (r & 1));                                  /* C09 */
  POST((!(r & 1) && g_compared) ==> (((r & 4) != 0) == (g_net != 0)));
  POST((!(r & 1) && g_compared && !g_weak) ==> (((r & 8) != 0) == (g_incompat != 0)));
  POST(((r & 4) && !g_weak) ==> g_reported);                       /* a reported change bit comes with a report */
  POST((r & 4) ==> g_compared);
  CANARY_h_abicompat_main;
}
