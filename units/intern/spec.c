/* Contract for U-intern (C42): strings interned in one pool are identical objects exactly when their
   contents are equal, and interned strings compare, order and hash like the strings they stand for,
   including comparisons with plain strings - for every pair of contents and every plain string.  */
#include "vstd_c.h"
long nondet_long(void);
void w_intern(long s1, long s2, long t, int *out);
#define POST(c) __CPROVER_assert(c, "postcondition: " #c)
void h_intern(void)
{
  long in_s1 = nondet_long(), in_s2 = nondet_long(), in_t = nondet_long(); int o[13];
  w_intern(in_s1, in_s2, in_t, o);
  POST((o[0] != 0) == (in_s1 == in_s2));           /* identical objects <=> equal contents */
  POST((o[1] != 0) == (in_s1 != in_s2));
  POST((o[2] != 0) == (in_s1 < in_s2));            /* order of the contents */
  POST((o[3] != 0) == (in_s2 < in_s1));
  POST((o[4] != 0) == (in_s1 == in_t));            /* comparisons with plain strings, both ways */
  POST((o[5] != 0) == (in_s1 != in_t));
  POST((o[6] != 0) == (in_s1 == in_t));
  POST((o[7] != 0) == (in_s1 != in_t));
  POST((in_s1 == in_s2) ==> o[8]);                 /* equal strings hash alike */
  POST((o[9] != 0) == (in_s1 == 0));               /* empty() like the content */
  POST(o[10]);                                     /* interning is idempotent */
  POST(o[11]);                                     /* the content is preserved */
  POST(o[12]);
  CANARY_h_intern;
}
