/* ghost interface of U-symload: the two name -> symbols maps read from an ABIXML document */
#ifndef SYMLOAD_GHOST_H
#define SYMLOAD_GHOST_H
#define MAXE 2      /* entries per map */
#define MAXS 2      /* symbols per entry */
#ifdef __cplusplus
extern "C" {
#endif
extern int in_nf, in_nv;                       /* number of entries of the function / variable map */
extern int in_fkey[MAXE], in_vkey[MAXE];       /* their names (identities); distinct inside one map */
extern int in_fcnt[MAXE], in_vcnt[MAXE];       /* symbols per entry */
extern int in_fsup[MAXE][MAXS], in_vsup[MAXE][MAXS];   /* is_suppressed() of each symbol */
extern int in_fnull, in_vnull;                 /* the map pointer is null */
/* results */
extern int out_ret, out_nsymbols, out_sorted;
extern int out_lookup_n;                       /* symbols found under the watched name */
extern int out_lookup_has_f, out_lookup_has_v; /* ... among them the first symbol of the watched function / variable entry */
void w_load_maps(int watched_name, int wf, int wv);
#ifdef __cplusplus
}
#endif
#endif
