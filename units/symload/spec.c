/* C33 - symtab::load_(function symbols, variable symbols), the symbol-table loader behind every ABIXML
   corpus, on arbitrary maps (BOUNDED: <= 2 names per map, <= 2 symbols per name; names arbitrary, so
   the same name may sit in both maps - an ABIXML document can say so):
     - no internal assertion fails, the call returns true;
     - every symbol that is not suppressed is in the symbol vector, once (count);
     - every name of either map can be looked up afterwards and yields the symbols recorded for it,
       of both kinds when both maps have the name;
     - the symbol vector is sorted once.                                                           */
#include "vstd_c.h"
#include "ghost.h"
int in_nf, in_nv, in_fkey[MAXE], in_vkey[MAXE], in_fcnt[MAXE], in_vcnt[MAXE], in_fsup[MAXE][MAXS], in_vsup[MAXE][MAXS], in_fnull, in_vnull;
int out_ret, out_nsymbols, out_sorted, out_lookup_n, out_lookup_has_f, out_lookup_has_v;
void h_load_maps(void)
{
  in_nf = nondet_int(); in_nv = nondet_int(); in_fnull = nondet_int() != 0; in_vnull = nondet_int() != 0;
  __CPROVER_assume(0 <= in_nf && in_nf <= MAXE && 0 <= in_nv && in_nv <= MAXE);
  int expect = 0;
  for (int i = 0; i < MAXE; ++i)
    {
      in_fkey[i] = nondet_int(); in_vkey[i] = nondet_int(); in_fcnt[i] = nondet_int(); in_vcnt[i] = nondet_int();
      __CPROVER_assume(1 <= in_fcnt[i] && in_fcnt[i] <= MAXS && 1 <= in_vcnt[i] && in_vcnt[i] <= MAXS);
      for (int j = 0; j < MAXS; ++j)
	{
	  in_fsup[i][j] = nondet_int() != 0; in_vsup[i][j] = nondet_int() != 0;
	  if (!in_fnull && i < in_nf && j < in_fcnt[i] && !in_fsup[i][j]) expect++;
	  if (!in_vnull && i < in_nv && j < in_vcnt[i] && !in_vsup[i][j]) expect++;
	}
    }
  /* names are distinct inside one map (they are the keys of a map) */
  __CPROVER_assume(in_nf < 2 || in_fkey[0] != in_fkey[1]);
  __CPROVER_assume(in_nv < 2 || in_vkey[0] != in_vkey[1]);
  /* watched name: that of entry wf of the function map and/or entry wv of the variable map */
  int wf = nondet_int(), wv = nondet_int(), name = nondet_int();
  int f_has = !in_fnull && 0 <= wf && wf < in_nf && in_fkey[wf] == name;
  int v_has = !in_vnull && 0 <= wv && wv < in_nv && in_vkey[wv] == name;
  __CPROVER_assume(f_has || v_has);
  /* if only one of them is named, the other map must not hold the name at all */
  int f_any = 0, v_any = 0;
  for (int i = 0; i < MAXE; ++i)
    {
      if (!in_fnull && i < in_nf && in_fkey[i] == name) f_any = 1;
      if (!in_vnull && i < in_nv && in_vkey[i] == name) v_any = 1;
    }
  __CPROVER_assume(f_has == f_any && v_has == v_any);
  out_sorted = 0;
  w_load_maps(name, f_has ? wf : -1, v_has ? wv : -1);
  __CPROVER_assert(out_ret, "load_ returns true");
  __CPROVER_assert(out_nsymbols == expect, "every symbol that is not suppressed is recorded once");
  __CPROVER_assert(out_sorted == 1, "the symbol vector is sorted once");
  __CPROVER_assert(out_lookup_n == (f_has ? in_fcnt[wf] : 0) + (v_has ? in_vcnt[wv] : 0), "a name yields all the symbols recorded for it in either map");
  __CPROVER_assert(!f_has || out_lookup_has_f, "the function symbols of a name can be looked up");
  __CPROVER_assert(!v_has || out_lookup_has_v, "the variable symbols of a name can be looked up");
  CANARY_h_load_maps;
}
