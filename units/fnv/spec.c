/* Contracts for U-fnv (C40).
   fnv_hash(s) is the 32-bit FNV-1a hash of the bytes of s (reference: offset basis 2166136261,
   prime 16777619, for each octet: xor, then multiply) - a function of the characters only, hence
   the same in every document.
   HASH_TYPE_ID_STYLE: the id number of a type is fnv_hash(internal name) when that number is not
   in use in the document yet; otherwise the first free successor (linear probing, which ends
   because the set of used numbers is finite).                                                  */
#include "vstd_c.h"
#include "ghost.h"
int gh_internal_name_used, gh_lc_phase, gh_order_bad, gh_last_was_new, gh_probe_seq_bad, gh_formatted_set;
unsigned gh_ref, gh_fnv; unsigned long gh_count, gh_in_n, gh_probes_left, gh_inserts, gh_last_inserted, gh_formatted, gh_occupied0; char *gh_in_buf;
unsigned w_fnv_hash(void); void w_hash_id(void);
#define POST(c) __CPROVER_assert(c, "postcondition: " #c)
void h_fnv_hash(void)
{
  gh_in_n = nondet_ulong(); __CPROVER_assume(gh_in_n <= (1UL << 20));
  gh_in_buf = malloc(gh_in_n + 1); __CPROVER_assume(gh_in_buf != 0);
  gh_ref = 2166136261u; gh_count = 0; gh_order_bad = 0; gh_lc_phase = nondet_int();
  unsigned r = w_fnv_hash();
  POST(gh_count == gh_in_n && !gh_order_bad);     /* every byte, once, in order */
  POST(r == gh_ref);                               /* = FNV-1a of those bytes */
  CANARY_h_fnv_hash;
}
void h_hash_id(void)
{
  gh_fnv = nondet_unsigned(); gh_probes_left = nondet_ulong(); __CPROVER_assume(gh_probes_left <= (1UL << 32));
  unsigned long in_occupied = gh_probes_left; gh_occupied0 = gh_probes_left;
  gh_inserts = 0; gh_last_inserted = 0; gh_last_was_new = 0; gh_probe_seq_bad = 0; gh_formatted = 0; gh_formatted_set = 0;
  gh_internal_name_used = 0; gh_lc_phase = nondet_int();
  w_hash_id();
  POST(gh_internal_name_used);                                    /* the id is derived from the INTERNAL name of the type */
  POST(!gh_probe_seq_bad);                                        /* probes fnv, fnv+1, fnv+2, ... */
  POST(gh_formatted_set == 1 && gh_last_was_new && gh_formatted == gh_last_inserted);   /* the id is the number that was found free */
  POST(gh_inserts == 1 ==> gh_formatted == (unsigned long) gh_fnv);                    /* no collision: the id is the hash of the name */
  POST(gh_formatted >= (unsigned long) gh_fnv && gh_formatted - gh_fnv <= in_occupied);  /* first free successor */
  CANARY_h_hash_id;
}
