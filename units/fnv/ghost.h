#ifndef FNV_GHOST_H
#define FNV_GHOST_H
#ifdef __cplusplus
extern "C" {
#endif
extern int gh_lc_phase;
extern unsigned gh_ref;           /* reference FNV-1a of the bytes read so far (folded by the string iterator) */
extern unsigned long gh_count;    /* number of bytes read so far, in order */
extern int gh_order_bad;          /* a byte was read out of order or twice */
extern char *gh_in_buf; extern unsigned long gh_in_n;
/* hash-id assignment */
extern unsigned gh_fnv;                 /* what fnv_hash answers for the type's internal name */
extern unsigned long gh_probes_left;    /* occupied slots in front of the first free one (the set is finite) */
extern unsigned long gh_occupied0;      /* gh_probes_left at entry */
extern unsigned long gh_inserts;        /* number of insert() calls */
extern unsigned long gh_last_inserted;  /* value passed to the latest insert() */
extern int gh_last_was_new;             /* ... and whether it was new */
extern int gh_probe_seq_bad;            /* inserts were not fnv, fnv+1, fnv+2, ... */
extern unsigned long gh_formatted;      /* the number written into the id */
extern int gh_formatted_set;
extern int gh_internal_name_used;        /* the name that was hashed is the type's internal name */
#ifdef __cplusplus
}
#endif
#endif
