#ifndef VERSYM_GHOST_H
#define VERSYM_GHOST_H
#ifdef __cplusplus
extern "C" {
#endif
extern int gh_lc_phase, gh_lc_phase_inner;
extern int gh_def_called, gh_need_called;
extern unsigned gh_aux_other;         /* vna_other of the Vernaux fetched last */
extern unsigned long gh_size;         /* size of the version-definition section in bytes */
extern unsigned gh_versym;            /* the symbol's version index word (Elfxx_Versym, 16 bits) */
extern unsigned long gh_getverdef_calls;   /* gelf_getverdef calls so far */
extern unsigned long gh_expected_off;      /* offset the next gelf_getverdef call must use: sum of the vd_next fields followed so far */
extern int gh_chain_bad;              /* a verdef was fetched at an offset that is not the end of the vd_next chain */
extern unsigned gh_cur_ndx, gh_cur_next, gh_cur_aux;  /* fields of the verdef fetched last */
extern unsigned long gh_cur_off;      /* offset it was fetched at */
extern int gh_cur_valid;              /* the last fetch succeeded */
extern unsigned long gh_aux_off;      /* offset passed to gelf_getverdaux */
extern int gh_aux_called, gh_str_set, gh_str_null, gh_default_set, gh_default_val;
extern int gh_str_empty;   /* the version name recorded last is the empty string */
extern unsigned gh_match_ndx; extern unsigned long gh_match_off; extern unsigned gh_match_aux;   /* the verdef current when the version was recorded */
#ifdef __cplusplus
}
#endif
#endif
