/* Contracts for get_version_definition_for_versym (C18: versions incl. default-version marking agree
   with the ELF file; C34: corrupted version sections never crash the library).
   Oracle: System V gABI / GNU symbol versioning: a symbol's Versym word holds the index of its version
   definition in bits 0..14; bit 15 set means the version is hidden, i.e. NOT the default version
   (name@VER rather than name@@VER); definitions are chained through vd_next, the name of a
   definition is the first Verdaux at vd_aux bytes from the definition.                           */
#include "vstd_c.h"
#include "ghost.h"
int gh_lc_phase_inner, gh_def_called, gh_need_called; unsigned gh_aux_other;
int gh_str_empty;
int gh_lc_phase, gh_chain_bad, gh_cur_valid, gh_aux_called, gh_str_set, gh_str_null, gh_default_set, gh_default_val;
unsigned gh_versym, gh_cur_ndx, gh_cur_next, gh_cur_aux, gh_match_ndx, gh_match_aux;
unsigned long gh_size, gh_getverdef_calls, gh_expected_off, gh_cur_off, gh_aux_off, gh_match_off;
int w_verdef_lookup(void); int w_get_version_for_symbol(unsigned long index, int get_def); int w_verneed_lookup(int null_args);
#define POST(c) __CPROVER_assert(c, "postcondition: " #c)
void h_verdef_lookup(void)
{
  gh_versym = nondet_unsigned() & 0xffff; gh_size = nondet_ulong(); __CPROVER_assume(gh_size <= 0x7fffffffUL);
  gh_getverdef_calls = 0; gh_expected_off = 0; gh_chain_bad = 0; gh_cur_valid = 0; gh_aux_called = 0; gh_str_set = 0; gh_str_null = 0; gh_str_empty = 0;
  gh_default_set = 0; gh_default_val = 0; gh_lc_phase = nondet_int();
  int r = w_verdef_lookup();
  POST(!gh_chain_bad);                                              /* definitions are fetched along the vd_next chain */
  POST(r ==> (gh_str_set == 1 && gh_default_set == 1));
  POST(r ==> gh_match_ndx == (gh_versym & 0x7fff));                 /* the definition recorded is the one the symbol names */
  POST(r ==> (long) gh_aux_off == (long) (int) (gh_match_off + gh_match_aux));            /* its name is read from its first Verdaux */
  POST(r ==> (gh_default_val != 0) == ((gh_versym & 0x8000) == 0)); /* hidden bit <=> not the default version */
  POST(!r ==> (gh_str_set == 0 && gh_default_set == 0));
  POST(r ==> !gh_str_empty);   /* a reported version has a name: the hash-table lookups assert it (U-sysvhash, U-gnuhash rely on this) */
  CANARY_h_verdef_lookup;
}
void h_verneed_lookup(void)
{
  gh_versym = nondet_unsigned() & 0xffff; gh_size = nondet_ulong(); __CPROVER_assume(gh_size <= 0x7fffffffUL);
  gh_str_set = 0; gh_str_null = 0; gh_str_empty = 0; gh_default_set = 0; gh_default_val = 0; gh_lc_phase = nondet_int(); gh_lc_phase_inner = nondet_int();
  int in_null_args = nondet_int() != 0;
  int r = w_verneed_lookup(in_null_args);
  POST(in_null_args ==> !r);
  POST(r ==> (gh_str_set == 1 && gh_default_set == 1));
  POST(r ==> gh_aux_other == gh_versym);                            /* the requirement recorded is the one the symbol names */
  POST(r ==> (gh_default_val != 0) == ((gh_versym & 0x8000) == 0));
  POST(!r ==> (gh_str_set == 0 && gh_default_set == 0));
  POST(r ==> !gh_str_empty);
  CANARY_h_verneed_lookup;
}
void h_get_version_for_symbol(void)
{
  gh_versym = nondet_unsigned() & 0xffff; gh_size = nondet_ulong(); gh_def_called = 0; gh_need_called = 0;
  unsigned long in_index = nondet_ulong(); int in_def = nondet_int() != 0;
  int r = w_get_version_for_symbol(in_index, in_def);
  /* Versym 0 (local) and 1 (global, unversioned) carry no version; neither does the hidden base version 0x8001 */
  POST(gh_versym <= 1 ==> (!r && !gh_def_called && !gh_need_called));
  POST((in_def && gh_versym == 0x8001) ==> (!r && !gh_def_called));
  POST(in_def ==> !gh_need_called);                  /* a defined symbol's version comes from the definitions */
  POST(!in_def ==> !gh_def_called);
  POST(r ==> (gh_def_called || gh_need_called));
  CANARY_h_get_version_for_symbol;
}
