/* C34 / C18: for a symbol of ANY name and ANY number of symbols recorded under that name minus ".cfi"
   (a symbol table may hold a name several times), the statement fails no assertion and indexes nothing out of
   range; the alternative address is set up for the one symbol of that name exactly when there is exactly one. */
#include "vstd_c.h"
#include "ghost.h"
unsigned long gh_name_size; int gh_ends_with_cfi, gh_nmatches, gh_lookups, gh_lookup_len_ok, gh_setups, gh_setup_sym;
void h_cfi_region(void)
{
  gh_name_size = nondet_ulong(); gh_ends_with_cfi = nondet_int() != 0; gh_nmatches = nondet_int();
  __CPROVER_assume(gh_name_size >= 1);                     /* the loop skips empty names */
  __CPROVER_assume(!gh_ends_with_cfi || gh_name_size >= 4);
  __CPROVER_assume(gh_nmatches >= 0);
  gh_lookups = 0; gh_setups = 0; gh_lookup_len_ok = 1;
  w_cfi_region();
  int is_cfi = gh_name_size > 4 && gh_ends_with_cfi;
  __CPROVER_assert(gh_lookups == (is_cfi ? 1 : 0), "the name minus .cfi is looked up exactly for names longer than and ending in .cfi");
  __CPROVER_assert(!is_cfi || gh_lookup_len_ok, "the suffix test and the candidate name use the last four characters");
  __CPROVER_assert(gh_setups == ((is_cfi && gh_nmatches == 1) ? 1 : 0), "the alternative address is set up iff exactly one symbol has the candidate name");
  __CPROVER_assert(gh_setups == 0 || gh_setup_sym == 100, "... for that symbol");
  CANARY_h_cfi_region;
}
