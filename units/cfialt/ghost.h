#ifndef CFIALT_GHOST_H
#define CFIALT_GHOST_H
#ifdef __cplusplus
extern "C" {
#endif
extern unsigned long gh_name_size;     /* length of the symbol name */
extern int gh_ends_with_cfi;           /* its last four characters are ".cfi" */
extern int gh_nmatches;                /* symbols recorded under the name minus ".cfi" */
extern int gh_lookups, gh_lookup_len_ok, gh_setups, gh_setup_sym;
void w_cfi_region(void);
#ifdef __cplusplus
}
#endif
#endif
