/* Contracts on detection predicates (C05: the listed ABI-incompatible edits are detected on the diff
   node that carries them; C07 for access_changed).  From the property's list of edits:
   adding or removing a parameter, adding/removing a base class, changing the size of a type,
   changing a member's offset, inserting/removing (non-static) data members, changing a member's access. */
#include "vstd_c.h"
int w_parms(int kind, int has_type_diff, unsigned long ndel, unsigned long nadd);
int w_bases(int null_diff, unsigned long ndel, unsigned long nins);
int w_type_size(int fnull, int snull, unsigned long fs, unsigned long ss, int fcls, int fdo, int scls, int sdo, int fenm, int fedo, int senm, int sedo);
int w_access(int fmem, int smem, int fa, int sa);
int w_dm_offset(int fmem, int smem, int fvar, int svar, unsigned long fo, unsigned long so);
int w_dm_added_removed(int null_diff, int decl_only, unsigned long nins, unsigned long ndel, int i0s, int i1s, int d0s, int d1s);
int w_has_type_size(int null_diff, int kind, int fnull, int snull, unsigned long fs, unsigned long ss, int fcls, int fdo, int scls, int sdo);
int w_enum_ins(int null_diff, int kind, unsigned long ni, unsigned long nd, unsigned long nc);
int w_enum_rem(int null_diff, int kind, unsigned long ni, unsigned long nd, unsigned long nc);
int w_harmful_enum(int null_diff, int kind, unsigned long ni, unsigned long nd, unsigned long nc, unsigned long fs, unsigned long ss);
int w_static_dm(int null_diff, int decl_only, unsigned long nins, unsigned long ndel, int i0s, int i1s, int d0s, int d1s);
int w_bases_d(int null_diff, int kind, unsigned long ndel, unsigned long nins);
int w_dm_added_removed_d(int null_diff, int kind, int decl_only, unsigned long nins, unsigned long ndel, int i0s, int i1s, int d0s, int d1s);
int w_static_dm_d(int null_diff, int kind, int decl_only, unsigned long nins, unsigned long ndel, int i0s, int i1s, int d0s, int d1s);
int w_virt_fn(int null_diff, int fmem, int smem, int fvirt, int svirt, unsigned long fo, unsigned long so);
int w_crc(int null_diff, int kind, int fsym, int ssym, unsigned long fcrc, unsigned long scrc);
int w_virt_d(int null_diff, int kind, int class_verdict, int fmem, int smem, int fvirt, int svirt, unsigned long fo, unsigned long so);
#define POST(c) __CPROVER_assert(c, "postcondition: " #c)
void h_parms(void)
{
  int in_kind = nondet_int(), in_has = nondet_int() != 0; unsigned long in_ndel = nondet_ulong(), in_nadd = nondet_ulong();
  __CPROVER_assume(in_kind >= 0 && in_kind <= 2);
  int r = w_parms(in_kind, in_has, in_ndel, in_nadd);
  int has_fn_type = in_kind == 1 || (in_kind == 2 && in_has);
  POST((r != 0) == (has_fn_type && (in_ndel > 0 || in_nadd > 0)));     /* a parameter was added OR removed */
  CANARY_h_parms;
}
void h_bases(void)
{
  int in_null = nondet_int() != 0; unsigned long in_ndel = nondet_ulong(), in_nins = nondet_ulong();
  int r = w_bases(in_null, in_ndel, in_nins);
  POST((r != 0) == (!in_null && (in_ndel > 0 || in_nins > 0)));
  CANARY_h_bases;
}
void h_type_size(void)
{
  int a[10]; for (int i = 0; i < 10; ++i) a[i] = nondet_int() != 0;
  unsigned long in_fs = nondet_ulong(), in_ss = nondet_ulong();
  int r = w_type_size(a[0], a[1], in_fs, in_ss, a[2], a[3], a[4], a[5], a[6], a[7], a[8], a[9]);
  int decl_only = (a[2] && a[3]) || (a[4] && a[5]) || (a[6] && a[7]) || (a[8] && a[9]);
  POST((r != 0) == (!a[0] && !a[1] && in_fs != 0 && in_ss != 0 && !decl_only && in_fs != in_ss));
  CANARY_h_type_size;
}
void h_access(void)
{
  int in_fm = nondet_int() != 0, in_sm = nondet_int() != 0, in_fa = nondet_int(), in_sa = nondet_int();
  __CPROVER_assume(in_fa >= 0 && in_fa <= 3 && in_sa >= 0 && in_sa <= 3);
  int r = w_access(in_fm, in_sm, in_fa, in_sa);
  POST((r != 0) == (in_fm && in_sm && in_fa != in_sa));
  CANARY_h_access;
}
void h_dm_offset(void)
{
  int in_fm = nondet_int() != 0, in_sm = nondet_int() != 0, in_fv = nondet_int() != 0, in_sv = nondet_int() != 0;
  unsigned long in_fo = nondet_ulong(), in_so = nondet_ulong();
  int r = w_dm_offset(in_fm, in_sm, in_fv, in_sv, in_fo, in_so);
  POST((r != 0) == (in_fm && in_sm && in_fv && in_sv && in_fo != in_so));
  CANARY_h_dm_offset;
}
void h_dm_added_removed(void)
{
  int in_null = nondet_int() != 0, in_do = nondet_int() != 0, s[4]; for (int i = 0; i < 4; ++i) s[i] = nondet_int() != 0;
  unsigned long in_ni = nondet_ulong(), in_nd = nondet_ulong(); __CPROVER_assume(in_ni <= 2 && in_nd <= 2);
  int r = w_dm_added_removed(in_null, in_do, in_ni, in_nd, s[0], s[1], s[2], s[3]);
  int nonstatic = (in_ni >= 1 && !s[0]) || (in_ni >= 2 && !s[1]) || (in_nd >= 1 && !s[2]) || (in_nd >= 2 && !s[3]);
  POST((r != 0) == (!in_null && !in_do && nonstatic));
  CANARY_h_dm_added_removed;
}
/* has_type_size_change: the size change of a type is seen on the node itself, and through a function
   parameter node on the parameter's type diff (never nil: asserted by fn_parm_diff's constructor). */
void h_has_type_size(void)
{
  int in_null = nondet_int() != 0, in_kind = nondet_int(), a[6]; for (int i = 0; i < 6; ++i) a[i] = nondet_int() != 0;
  unsigned long in_fs = nondet_ulong(), in_ss = nondet_ulong();
  __CPROVER_assume(in_kind == 0 || in_kind == 4 || in_kind == 5);
  int r = w_has_type_size(in_null, in_kind, a[0], a[1], in_fs, in_ss, a[2], a[3], a[4], a[5]);
  int decl_only = (a[2] && a[3]) || (a[4] && a[5]);
  POST((r != 0) == (!in_null && !a[0] && !a[1] && in_fs != 0 && in_ss != 0 && !decl_only && in_fs != in_ss));
  CANARY_h_has_type_size;
}
void h_enum_ins(void)
{
  int in_null = nondet_int() != 0, in_kind = nondet_int(); unsigned long ni = nondet_ulong(), nd = nondet_ulong(), nc = nondet_ulong();
  __CPROVER_assume(in_kind >= 0 && in_kind <= 5);
  int r = w_enum_ins(in_null, in_kind, ni, nd, nc);
  POST((r != 0) == (!in_null && in_kind == 5 && ni > 0));
  CANARY_h_enum_ins;
}
void h_enum_rem(void)
{
  int in_null = nondet_int() != 0, in_kind = nondet_int(); unsigned long ni = nondet_ulong(), nd = nondet_ulong(), nc = nondet_ulong();
  __CPROVER_assume(in_kind >= 0 && in_kind <= 5);
  int r = w_enum_rem(in_null, in_kind, ni, nd, nc);
  POST((r != 0) == (!in_null && in_kind == 5 && (nd > 0 || nc > 0)));      /* removal OR value change of an enumerator */
  CANARY_h_enum_rem;
}
/* C05: removing an enumerator, changing its value, or changing the size of the enum is harmful;
   an insertion alone is not (that one is the harmless category of C07). */
void h_harmful_enum(void)
{
  int in_null = nondet_int() != 0, in_kind = nondet_int(); unsigned long ni = nondet_ulong(), nd = nondet_ulong(), nc = nondet_ulong();
  unsigned long in_fs = nondet_ulong(), in_ss = nondet_ulong();
  __CPROVER_assume(in_kind >= 0 && in_kind <= 5);
  int r = w_harmful_enum(in_null, in_kind, ni, nd, nc, in_fs, in_ss);
  int size_changed = in_fs != 0 && in_ss != 0 && in_fs != in_ss;
  POST((r != 0) == (!in_null && in_kind == 5 && (nd > 0 || nc > 0 || size_changed)));
  CANARY_h_harmful_enum;
}
void h_static_dm(void)
{
  int in_null = nondet_int() != 0, in_do = nondet_int() != 0, s[4]; for (int i = 0; i < 4; ++i) s[i] = nondet_int() != 0;
  unsigned long in_ni = nondet_ulong(), in_nd = nondet_ulong(); __CPROVER_assume(in_ni <= 2 && in_nd <= 2);
  int r = w_static_dm(in_null, in_do, in_ni, in_nd, s[0], s[1], s[2], s[3]);
  int stat = (in_ni >= 1 && s[0]) || (in_ni >= 2 && s[1]) || (in_nd >= 1 && s[2]) || (in_nd >= 2 && s[3]);
  POST((r != 0) == (!in_null && !in_do && stat));
  CANARY_h_static_dm;
}
/* The overloads categorize_harm{ful,less}_diff_node call: same verdict on a class diff, false on any other node. */
void h_bases_d(void)
{
  int in_null = nondet_int() != 0, in_kind = nondet_int(); unsigned long in_ndel = nondet_ulong(), in_nins = nondet_ulong();
  __CPROVER_assume(in_kind >= 0 && in_kind <= 5);
  int r = w_bases_d(in_null, in_kind, in_ndel, in_nins);
  POST((r != 0) == (!in_null && in_kind == 3 && (in_ndel > 0 || in_nins > 0)));
  CANARY_h_bases_d;
}
void h_dm_added_removed_d(void)
{
  int in_null = nondet_int() != 0, in_kind = nondet_int(), in_do = nondet_int() != 0, s[4]; for (int i = 0; i < 4; ++i) s[i] = nondet_int() != 0;
  unsigned long in_ni = nondet_ulong(), in_nd = nondet_ulong(); __CPROVER_assume(in_ni <= 2 && in_nd <= 2 && in_kind >= 0 && in_kind <= 5);
  int r = w_dm_added_removed_d(in_null, in_kind, in_do, in_ni, in_nd, s[0], s[1], s[2], s[3]);
  int nonstatic = (in_ni >= 1 && !s[0]) || (in_ni >= 2 && !s[1]) || (in_nd >= 1 && !s[2]) || (in_nd >= 2 && !s[3]);
  POST((r != 0) == (!in_null && in_kind == 3 && !in_do && nonstatic));
  CANARY_h_dm_added_removed_d;
}
void h_static_dm_d(void)
{
  int in_null = nondet_int() != 0, in_kind = nondet_int(), in_do = nondet_int() != 0, s[4]; for (int i = 0; i < 4; ++i) s[i] = nondet_int() != 0;
  unsigned long in_ni = nondet_ulong(), in_nd = nondet_ulong(); __CPROVER_assume(in_ni <= 2 && in_nd <= 2 && in_kind >= 0 && in_kind <= 5);
  int r = w_static_dm_d(in_null, in_kind, in_do, in_ni, in_nd, s[0], s[1], s[2], s[3]);
  int stat = (in_ni >= 1 && s[0]) || (in_ni >= 2 && s[1]) || (in_nd >= 1 && s[2]) || (in_nd >= 2 && s[3]);
  POST((r != 0) == (!in_null && in_kind == 3 && !in_do && stat));
  CANARY_h_static_dm_d;
}
/* C05 "changing the vtable": a member function that becomes (or stops being) virtual, or whose vtable slot moves. */
void h_virt_fn(void)
{
  int in_null = nondet_int() != 0, in_fm = nondet_int() != 0, in_sm = nondet_int() != 0, in_fv = nondet_int() != 0, in_sv = nondet_int() != 0;
  unsigned long in_fo = nondet_ulong(), in_so = nondet_ulong();
  int r = w_virt_fn(in_null, in_fm, in_sm, in_fv, in_sv, in_fo, in_so);
  POST((r != 0) == (!in_null && in_fm && in_sm && (in_fv != in_sv || in_fo != in_so)));
  CANARY_h_virt_fn;
}
/* A changed CRC (Linux kernel symbol version: the interface's type signature changed) on a function or variable:
   both symbols carry a CRC (non-zero) and the two differ. */
void h_crc(void)
{
  int in_null = nondet_int() != 0, in_kind = nondet_int(), in_fsym = nondet_int() != 0, in_ssym = nondet_int() != 0;
  unsigned long in_fcrc = nondet_ulong(), in_scrc = nondet_ulong();
  __CPROVER_assume(in_kind >= 0 && in_kind <= 6);
  int r = w_crc(in_null, in_kind, in_fsym, in_ssym, in_fcrc, in_scrc);
  POST((r != 0) == (!in_null && (in_kind == 2 || in_kind == 6) && in_fsym && in_ssym && in_fcrc != 0 && in_scrc != 0 && in_fcrc != in_scrc));
  CANARY_h_crc;
}
/* The overload categorize_harmful_diff_node calls: the class verdict on a class diff (assumed callee contract),
   the function verdict (proved in h_virt_fn) on a function diff, false on any other node. */
void h_virt_d(void)
{
  int in_null = nondet_int() != 0, in_kind = nondet_int(), in_cv = nondet_int() != 0;
  int in_fm = nondet_int() != 0, in_sm = nondet_int() != 0, in_fv = nondet_int() != 0, in_sv = nondet_int() != 0;
  unsigned long in_fo = nondet_ulong(), in_so = nondet_ulong();
  __CPROVER_assume(in_kind >= 0 && in_kind <= 6);
  int r = w_virt_d(in_null, in_kind, in_cv, in_fm, in_sm, in_fv, in_sv, in_fo, in_so);
  int fn_verdict = in_fm && in_sm && (in_fv != in_sv || in_fo != in_so);
  POST((r != 0) == (!in_null && ((in_kind == 3 && in_cv) || (in_kind == 2 && fn_verdict))));
  CANARY_h_virt_d;
}
