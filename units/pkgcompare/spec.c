/* Contract on the real per-binary compare() of tools/abipkgdiff.cc (C30: per-binary verdicts agree
   with abidiff's verdict on the same pair; C08: documented bits only; C09: an unreadable binary is
   an error), every path under every outcome of the stubbed library calls.                       */
#include "vstd_c.h"
int g_load_failed, g_files_suppressed, g_compared, g_net, g_incompat, g_status1, g_status2;
int w_pkg_compare(int verbose, int fail_if_no_di, int with_detail);
#define POST(c) __CPROVER_assert(c, "postcondition: " #c)
void h_pkg_compare(void)
{
  g_load_failed = 0; g_files_suppressed = 0; g_compared = 0; g_net = 0; g_incompat = 0; g_status1 = 1; g_status2 = 1;
  int in_verbose = nondet_int(), in_fail = nondet_int() != 0, in_detail = nondet_int() != 0;
  int r = w_pkg_compare(in_verbose, in_fail, in_detail);
  POST((r & ~13) == 0);                                        /* bits 1, 4, 8 only */
  POST((r & 8) ==> (r & 4));
  POST(g_load_failed ==> r == 1);                               /* C09 */
  POST(g_files_suppressed ==> (r == 0 && !g_compared));
  POST((r & 1) ==> !g_compared);
  POST(g_compared ==> r == ((g_net ? 4 : 0) | (g_incompat ? 8 : 0)));   /* the verdict abidiff gives for the pair */
  /* --fail-no-dbg-info: missing debug info is an error */
  POST((in_fail && !g_files_suppressed && ((g_status1 & 6) || (g_compared == 0 && !g_load_failed && (g_status2 & 6)))) ==> (r & 1));
  CANARY_h_pkg_compare;
}
