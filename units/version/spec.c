/* Contract for handle_version_attribute (C33): for every version attribute (absent, empty, or a
   string that splits into any number of fields, including none or one) the function indexes its
   field vector in bounds and records a major and a minor number exactly once.                 */
#include "vstd_c.h"
#include "ghost.h"
int gh_attr_present, gh_attr_empty; unsigned long gh_nfields;
int gh_major_set, gh_minor_set, gh_major_id, gh_minor_id;

void w_handle_version_attribute(void)
__CPROVER_requires(gh_major_set == 0 && gh_minor_set == 0)
__CPROVER_requires(gh_nfields <= 6)
__CPROVER_ensures(gh_major_set == 1 && gh_minor_set == 1)
/* a version with >= 2 fields records the first two fields ("major.minor") */
__CPROVER_ensures((gh_attr_present && !gh_attr_empty && gh_nfields >= 2) ==> (gh_major_id == 100 && gh_minor_id == 101))
/* a single field is the major number */
__CPROVER_ensures((gh_attr_present && !gh_attr_empty && gh_nfields == 1) ==> gh_major_id == 100)
__CPROVER_assigns(gh_major_set, gh_minor_set, gh_major_id, gh_minor_id)
CANARY_w_handle_version_attribute
;

void h_version(void)
{
  w_handle_version_attribute();
}
