#ifndef VERSION_GHOST_H
#define VERSION_GHOST_H
#ifdef __cplusplus
extern "C" {
#endif
extern int gh_attr_present, gh_attr_empty;      /* inputs: is there a version attribute, is it "" */
extern unsigned long gh_nfields;                /* input: number of fields split_string yields */
extern int gh_major_set, gh_minor_set, gh_major_id, gh_minor_id;
#ifdef __cplusplus
}
#endif
#endif
