// Native replay for U-version: builds a version attribute with the number of fields the verifier's
// counterexample names (gh_nfields) and runs the real handle_version_attribute + the real
// split_string, compiled with the real libstdc++ and _GLIBCXX_ASSERTIONS (an out-of-range
// vector::operator[] aborts).  Postcondition: the call returns, major and minor are each set once,
// and for >= 2 fields they are the first two fields.
#include "replay_util.h"
#define __CPROVER_assert(c, m) ((void) 0)
#define __CPROVER_assume(c) ((void) 0)
extern "C" { int gh_attr_present, gh_attr_empty; unsigned long gh_nfields; int gh_major_set, gh_minor_set, gh_major_id, gh_minor_id; }
std::string rp_version;
#include "gen.cpp"

int main(int argc, char** argv)
{
  replay_args a(argc, argv);
  gh_attr_present = a.i("gh_attr_present", 1) != 0;
  gh_attr_empty = a.i("gh_attr_empty", 0) != 0;
  gh_nfields = a.u("gh_nfields", 1);
  if (gh_attr_empty) rp_version = "";
  else if (gh_nfields == 0) rp_version = ".";
  else
    for (unsigned long k = 0; k < gh_nfields; ++k)
      {
	char b[16]; snprintf(b, sizeof b, "%s%lu", k ? "." : "", k + 2);
	rp_version += b;
      }
  printf("replaying with version attribute %s%s%s\n", gh_attr_present ? "'" : "(absent)", gh_attr_present ? rp_version.c_str() : "", gh_attr_present ? "'" : "");
  fflush(stdout);
  w_handle_version_attribute();      // aborts (SIGABRT) on an out-of-range index
  REPLAY_EXPECT(gh_major_set == 1 && gh_minor_set == 1, "major set %d times, minor %d times", gh_major_set, gh_minor_set);
  printf("REPLAY: postcondition holds natively on this input (field contents are compared by the verifier only)\n");
  return 0;
}
