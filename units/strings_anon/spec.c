/* Bounded lemma for decl_names_equal on names WITH anonymous internal parts (C41).
   Inputs: each name is  <kind prefix><up to 4 arbitrary bytes>  where the kind prefix is empty or one
   of the three internal prefixes; that reaches every anonymous-name branch with few symbolic bytes.
   Oracle (doc comment of decl_names_equal): names are equal component by component (components
   separated by "::"); two components match when they are the same string or when both are anonymous
   names of the same kind (struct / union / enum), whatever their numbering.                       */
#include "vstd_c.h"
#define CAP 24
#ifndef TAIL
#define TAIL 2
#endif
int w_decl_names_equal(const char *l, unsigned long ln, const char *r, unsigned long rn);
static const char *PFX[4] = {"", "__anonymous_struct__", "__anonymous_union__", "__anonymous_enum__"};
static const unsigned long PLEN[4] = {0, 20, 19, 18};

static int starts(const char *s, unsigned long n, int k)
{
  if (n < PLEN[k]) return 0;
  for (unsigned long i = 0; i < PLEN[k]; ++i) if (s[i] != PFX[k][i]) return 0;
  return 1;
}
/* end of the component starting at pos */
static unsigned long comp_end(const char *s, unsigned long n, unsigned long pos)
{
  unsigned long e = pos;
  while (e < n && !(e + 1 < n && s[e] == ':' && s[e + 1] == ':')) e++;
  return e;
}
static int comp_match(const char *a, unsigned long an, const char *b, unsigned long bn)
{
  int eq = an == bn;
  for (unsigned long i = 0; eq && i < an; ++i) if (a[i] != b[i]) eq = 0;
  if (eq) return 1;
  for (int k = 1; k <= 3; ++k) if (starts(a, an, k) && starts(b, bn, k)) return 1;
  return 0;
}
static int ref_equal(const char *l, unsigned long ln, const char *r, unsigned long rn)
{
  unsigned long lp = 0, rp = 0;
  while (lp < ln && rp < rn)
    {
      unsigned long le = comp_end(l, ln, lp), re = comp_end(r, rn, rp);
      if (!comp_match(l + lp, le - lp, r + rp, re - rp)) return 0;
      lp = le == ln ? le : le + 2;
      rp = re == rn ? re : re + 2;
    }
  return (lp == ln) == (rp == rn);
}
static unsigned long build(char *buf, int kind, const char *tail, unsigned long tn)
{
  unsigned long n = 0;
  for (unsigned long i = 0; i < PLEN[kind]; ++i) buf[n++] = PFX[kind][i];
  for (unsigned long i = 0; i < tn; ++i) buf[n++] = tail[i];
  return n;
}
void h_decl_names_anon(void)
{
  char in_lt[TAIL], in_rt[TAIL], l[CAP + 1], r[CAP + 1];
  int in_lk = nondet_int(), in_rk = nondet_int();
  unsigned long in_ltn = nondet_ulong(), in_rtn = nondet_ulong();
  __CPROVER_assume(0 <= in_lk && in_lk <= 3 && 0 <= in_rk && in_rk <= 3 && in_ltn <= TAIL && in_rtn <= TAIL);
  unsigned long ln = build(l, in_lk, in_lt, in_ltn), rn = build(r, in_rk, in_rt, in_rtn);
  int lr = w_decl_names_equal(l, ln, r, rn);
  int rl = w_decl_names_equal(r, rn, l, ln);
  __CPROVER_assert((lr != 0) == (rl != 0), "decl_names_equal is symmetric (names with anonymous parts)");
  __CPROVER_assert((lr != 0) == (ref_equal(l, ln, r, rn) != 0),
                   "decl_names_equal matches components that are equal or anonymous of the same kind, and only those");
  CANARY_h_decl_names_anon;
}
