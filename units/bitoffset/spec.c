/* Contracts for U-bitoffset.  Oracle: DWARF 4 section 5.5.6 / DWARF 5 section 5.7.6:
   - DW_AT_data_bit_offset, when present, is the member's offset in bits;
   - otherwise the offset is 8 * DW_AT_data_member_location, plus, for a bit-field,
     DW_AT_bit_offset counted from the most significant bit of the DW_AT_byte_size storage unit:
     on a little-endian target that is  8*byte_size - bit_offset - bit_size  from the start of
     the unit, on a big-endian target it is bit_offset itself.
   Arithmetic is modulo 2^64 (GCC emits "negative" DW_AT_bit_offset for packed straddling
   bit-fields and relies on the wrap-around).                                               */
#include "vstd_c.h"
typedef unsigned long uint64_t;
typedef long int64_t;
typedef unsigned char uint8_t;
#include "ghost.h"
int gh_has[2 * GA_COUNT]; unsigned long gh_val[2 * GA_COUNT]; int gh_form[2 * GA_COUNT];
int gh_loc_is_constant[2], gh_loc_expr_len[2], gh_loc_atom[2]; unsigned long gh_loc_number[2];
int gh_big_endian;
long gh_recorded_base_offset;

#define D die
#define FORM_OK(d, a) (GH_FORM(d, a) == 0 || GH_FORM(d, a) == 8 \
   || (GH_FORM(d, a) == 1 && GH_VAL(d, a) <= 0xffUL) || (GH_FORM(d, a) == 2 && GH_VAL(d, a) <= 0xffffUL) \
   || (GH_FORM(d, a) == 4 && GH_VAL(d, a) <= 0xffffffffUL))
/* a DIE as a compiler emits it: values fit their forms; a bit-field described by DW_AT_bit_offset
   also carries DW_AT_byte_size and DW_AT_bit_size (always the case for GCC/clang output) */
#define WF_DIE(d) \
  (FORM_OK(d, GA_data_bit_offset) && FORM_OK(d, GA_data_member_location) && FORM_OK(d, GA_bit_offset) \
   && FORM_OK(d, GA_byte_size) && FORM_OK(d, GA_bit_size) \
   && (!GH_HAS(d, GA_bit_offset) || (GH_HAS(d, GA_byte_size) && GH_HAS(d, GA_bit_size))) \
   && gh_loc_expr_len[d] >= 0 && gh_loc_expr_len[d] <= 2)
/* conversion of DW_AT_bit_offset into an offset from the start of the storage unit */
#define BITFIELD_DELTA(d, be) \
  (GH_HAS(d, GA_bit_offset) ? ((be) ? GH_VAL(d, GA_bit_offset) \
                                  : (8UL * GH_VAL(d, GA_byte_size) - GH_VAL(d, GA_bit_offset) - GH_VAL(d, GA_bit_size))) : 0UL)

int w_read_and_convert(int die, int big_endian, uint64_t *offset)
__CPROVER_requires(die == 0 || die == 1)
__CPROVER_requires(__CPROVER_is_fresh(offset, sizeof(*offset)))
__CPROVER_requires(WF_DIE(D))
__CPROVER_ensures((__CPROVER_return_value != 0) == (GH_HAS(die, GA_bit_offset) != 0))
__CPROVER_ensures(__CPROVER_return_value ==> *offset == BITFIELD_DELTA(D, big_endian))
__CPROVER_ensures(!__CPROVER_return_value ==> *offset == __CPROVER_old(*offset))
__CPROVER_assigns(*offset)
CANARY_w_read_and_convert
;

int w_eval_quickly(int len, int atom, uint64_t number, int64_t *value)
__CPROVER_requires(__CPROVER_is_fresh(value, sizeof(*value)))
__CPROVER_requires(atom >= 0 && atom <= 255)
__CPROVER_ensures((__CPROVER_return_value != 0) == (len == 1 && atom == 0x23))
__CPROVER_ensures(__CPROVER_return_value ==> *value == (int64_t) number)
__CPROVER_assigns(*value)
CANARY_w_eval_quickly
;

/* die_member_offset: offset (in bits) as the DWARF specification defines it */
#define LOC_BYTES(d) (gh_loc_is_constant[d] ? GH_VAL(d, GA_data_member_location) : gh_loc_number[d])
#define LOC_SIMPLE(d) (GH_HAS(d, GA_data_member_location) \
   && (gh_loc_is_constant[d] || (gh_loc_expr_len[d] == 1 && gh_loc_atom[d] == 0x23)))
#define SPEC_OFFSET(d, be) \
  (GH_HAS(d, GA_data_bit_offset) ? GH_VAL(d, GA_data_bit_offset) : (8UL * LOC_BYTES(d) + BITFIELD_DELTA(d, be)))

int w_die_member_offset(int die, int64_t *offset)
__CPROVER_requires(die == 0 || die == 1)
__CPROVER_requires(__CPROVER_is_fresh(offset, sizeof(*offset)))
__CPROVER_requires(WF_DIE(D))
/* byte offsets of members are far below 2^60 (8*loc must not overflow int64) */
__CPROVER_requires(LOC_BYTES(D) < (1UL << 60))
/* a member described by DW_AT_data_bit_offset or by a constant / DW_OP_plus_uconst location is
   always resolved, to the value the specification gives */
__CPROVER_ensures((GH_HAS(die, GA_data_bit_offset) || LOC_SIMPLE(D)) ==>
                  (__CPROVER_return_value != 0 && (uint64_t) *offset == SPEC_OFFSET(D, gh_big_endian)))
/* without either attribute there is no offset */
__CPROVER_ensures((!GH_HAS(die, GA_data_bit_offset) && !GH_HAS(die, GA_data_member_location)) ==> __CPROVER_return_value == 0)
__CPROVER_assigns(*offset)
CANARY_w_die_member_offset
;

/* C43: the DWARF 4 description (location + byte_size/bit_size/bit_offset) and the DWARF 5
   description (data_bit_offset) of one and the same member yield the same offset */
int w_member_offset_pair(int64_t *off4, int64_t *off5)
__CPROVER_requires(__CPROVER_is_fresh(off4, sizeof(*off4)) && __CPROVER_is_fresh(off5, sizeof(*off5)))
__CPROVER_requires(WF_DIE(0) && WF_DIE(1))
__CPROVER_requires(!GH_HAS(0, GA_data_bit_offset) && GH_HAS(0, GA_data_member_location) && gh_loc_is_constant[0])
__CPROVER_requires(GH_VAL(0, GA_data_member_location) < (1UL << 60))
__CPROVER_requires(GH_HAS(1, GA_data_bit_offset))
/* the two descriptions denote the same bit position (DWARF 5 section 5.7.6, identity of appendix) */
__CPROVER_requires(GH_VAL(1, GA_data_bit_offset) ==
                   8UL * GH_VAL(0, GA_data_member_location) + BITFIELD_DELTA(0, gh_big_endian))
__CPROVER_ensures(__CPROVER_return_value == 3 && *off4 == *off5)
__CPROVER_assigns(*off4, *off5)
CANARY_w_member_offset_pair
;

/* C15 (members of base classes): the offset recorded for a base class is the member offset of
   its DW_TAG_inheritance DIE, in bits, or -1 when it has none */
long w_base_spec_offset(int die)
__CPROVER_requires(die == 0 || die == 1)
__CPROVER_requires(WF_DIE(D))
__CPROVER_requires(LOC_BYTES(D) < (1UL << 27))
/* tool limitation: CBMC 6.11's C++ front end types `c ? int64_t : int` as int, so this region is
   only checked for offsets below 2^31 bits (256 MiB); the unrestricted arithmetic is covered by
   w_die_member_offset */
__CPROVER_requires(SPEC_OFFSET(D, gh_big_endian) < (1UL << 31))
__CPROVER_ensures((GH_HAS(die, GA_data_bit_offset) || LOC_SIMPLE(D)) ==>
                  (unsigned long) __CPROVER_return_value == SPEC_OFFSET(D, gh_big_endian))
__CPROVER_ensures((!GH_HAS(die, GA_data_bit_offset) && !GH_HAS(die, GA_data_member_location)) ==> __CPROVER_return_value == -1)
__CPROVER_assigns(gh_recorded_base_offset)
CANARY_w_base_spec_offset
;

void h_base_spec_offset(void)
{
  __CPROVER_havoc_object(gh_has); __CPROVER_havoc_object(gh_val); __CPROVER_havoc_object(gh_form);
  __CPROVER_havoc_object(gh_loc_is_constant); __CPROVER_havoc_object(gh_loc_expr_len);
  __CPROVER_havoc_object(gh_loc_atom); __CPROVER_havoc_object(gh_loc_number);
  gh_big_endian = nondet_int();
  int in_die = nondet_int();
  w_base_spec_offset(in_die);
}
void h_read_and_convert(void)
{
  __CPROVER_havoc_object(gh_has); __CPROVER_havoc_object(gh_val); __CPROVER_havoc_object(gh_form);
  __CPROVER_havoc_object(gh_loc_is_constant); __CPROVER_havoc_object(gh_loc_expr_len);
  __CPROVER_havoc_object(gh_loc_atom); __CPROVER_havoc_object(gh_loc_number);
  uint64_t in_offset = nondet_ulong(); int in_die = nondet_int(), in_big_endian = nondet_int();
  w_read_and_convert(in_die, in_big_endian, &in_offset);
}
void h_eval_quickly(void)
{
  int64_t v; int in_len = nondet_int(), in_atom = nondet_int(); uint64_t in_number = nondet_ulong();
  w_eval_quickly(in_len, in_atom, in_number, &v);
}
void h_die_member_offset(void)
{
  __CPROVER_havoc_object(gh_has); __CPROVER_havoc_object(gh_val); __CPROVER_havoc_object(gh_form);
  __CPROVER_havoc_object(gh_loc_is_constant); __CPROVER_havoc_object(gh_loc_expr_len);
  __CPROVER_havoc_object(gh_loc_atom); __CPROVER_havoc_object(gh_loc_number);
  gh_big_endian = nondet_int();
  int64_t in_offset = nondet_ulong(); int in_die = nondet_int();
  w_die_member_offset(in_die, &in_offset);
}
void h_member_offset_pair(void)
{
  __CPROVER_havoc_object(gh_has); __CPROVER_havoc_object(gh_val); __CPROVER_havoc_object(gh_form);
  __CPROVER_havoc_object(gh_loc_is_constant); __CPROVER_havoc_object(gh_loc_expr_len);
  __CPROVER_havoc_object(gh_loc_atom); __CPROVER_havoc_object(gh_loc_number);
  gh_big_endian = nondet_int();
  int64_t o4, o5;
  w_member_offset_pair(&o4, &o5);
}

/* C34: ANY member DIE - attributes present or absent in any combination, any values (no WF_DIE): the offset
   computation neither fails an internal assertion nor touches memory it should not; when the bit-field
   description is incomplete (DW_AT_bit_offset without DW_AT_byte_size / DW_AT_bit_size) the offset is the byte
   offset alone.  (The frame is not checked here: the call is direct, not through an enforced contract.)      */
void h_any_die(void)
{
  __CPROVER_havoc_object(gh_has); __CPROVER_havoc_object(gh_val); __CPROVER_havoc_object(gh_form);
  __CPROVER_havoc_object(gh_loc_is_constant); __CPROVER_havoc_object(gh_loc_expr_len);
  __CPROVER_havoc_object(gh_loc_atom); __CPROVER_havoc_object(gh_loc_number);
  gh_big_endian = nondet_int();
  int in_die = nondet_int(); __CPROVER_assume(in_die == 0 || in_die == 1);
  __CPROVER_assume(gh_loc_expr_len[in_die] >= 0 && gh_loc_expr_len[in_die] <= 2);
  /* signed overflow of `offset *= 8` for byte offsets >= 2^60 is undefined behaviour but neither a crash nor an
     abort nor a memory access: outside C34 (it belongs to C35, not applicable) */
  __CPROVER_assume(GH_VAL(in_die, GA_data_member_location) < (1UL << 60) && gh_loc_number[in_die] < (1UL << 60));
  int64_t in_offset = nondet_ulong(); uint64_t in_boff = nondet_ulong(); uint64_t before = in_boff;
  int r = w_read_and_convert(in_die, nondet_int(), &in_boff);
  __CPROVER_assert(r || in_boff == before, "an unusable bit-field description leaves the offset alone");
  __CPROVER_assert(!r || GH_HAS(in_die, GA_bit_offset), "a bit offset is only reported when the DIE has DW_AT_bit_offset");
  w_die_member_offset(in_die, &in_offset);
  CANARY_h_any_die;
}
