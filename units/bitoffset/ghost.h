/* ghost DIE model shared by gen.cpp (C++) and spec.c (C): scalar arrays only */
#ifndef BITOFFSET_GHOST_H
#define BITOFFSET_GHOST_H
enum gh_attr { GA_data_bit_offset, GA_data_member_location, GA_bit_offset, GA_byte_size, GA_bit_size, GA_COUNT };
#ifdef __cplusplus
extern "C" {
#endif
extern int gh_has[2 * GA_COUNT];            /* attribute present */
extern unsigned long gh_val[2 * GA_COUNT];  /* its value, zero-extended to 64 bits */
extern int gh_form[2 * GA_COUNT];           /* 1,2,4,8 = DW_FORM_data<N>; 0 = DW_FORM_udata / implicit_const */
extern int gh_loc_is_constant[2];           /* DW_AT_data_member_location is of class constant */
extern int gh_loc_expr_len[2];              /* else: length of its location expression */
extern int gh_loc_atom[2];                  /* first operation of that expression */
extern unsigned long gh_loc_number[2];      /* and its operand */
extern int gh_big_endian;
extern long gh_recorded_base_offset;         /* what the base_spec constructor was given */
#ifdef __cplusplus
}
#endif
#define GH_HAS(d, a) gh_has[(d) * GA_COUNT + (a)]
#define GH_VAL(d, a) gh_val[(d) * GA_COUNT + (a)]
#define GH_FORM(d, a) gh_form[(d) * GA_COUNT + (a)]
#endif
