// Native replay for U-bitoffset: gen.cpp (the extracted text + ghost libdw model) compiled by g++,
// run on the verifier's counterexample; the DWARF-specified offset is recomputed independently.
#include "replay_util.h"
#define __CPROVER_assert(c, m) do { if (!(c)) { printf("REPLAY-CONFIRMED: %s violated natively\n", m); exit(1); } } while (0)
#define __CPROVER_assume(c) do { if (!(c)) { printf("REPLAY: assumption of the environment model not met\n"); exit(0); } } while (0)
extern "C" { int nondet_int(void) {return 0;} long nondet_long(void) {return 0;} }
extern "C" {
int gh_has[10]; unsigned long gh_val[10]; int gh_form[10];
int gh_loc_is_constant[2], gh_loc_expr_len[2], gh_loc_atom[2]; unsigned long gh_loc_number[2];
int gh_big_endian; long gh_recorded_base_offset;
}
#include "gen.cpp"

static unsigned long delta(int d, int be)
{
  if (!GH_HAS(d, GA_bit_offset)) return 0;
  return be ? GH_VAL(d, GA_bit_offset) : 8UL * GH_VAL(d, GA_byte_size) - GH_VAL(d, GA_bit_offset) - GH_VAL(d, GA_bit_size);
}
static bool simple(int d)
{return GH_HAS(d, GA_data_member_location) && (gh_loc_is_constant[d] || (gh_loc_expr_len[d] == 1 && gh_loc_atom[d] == 0x23));}
static unsigned long spec(int d, int be)
{
  if (GH_HAS(d, GA_data_bit_offset)) return GH_VAL(d, GA_data_bit_offset);
  unsigned long loc = gh_loc_is_constant[d] ? GH_VAL(d, GA_data_member_location) : gh_loc_number[d];
  return 8UL * loc + delta(d, be);
}

int main(int argc, char** argv)
{
  replay_args a(argc, argv);
  char k[64];
  for (int i = 0; i < 10; ++i)
    {
      snprintf(k, sizeof k, "gh_has[%dl]", i); gh_has[i] = a.i(k);
      snprintf(k, sizeof k, "gh_val[%dl]", i); gh_val[i] = a.u(k);
      snprintf(k, sizeof k, "gh_form[%dl]", i); gh_form[i] = a.i(k);
    }
  for (int i = 0; i < 2; ++i)
    {
      snprintf(k, sizeof k, "gh_loc_is_constant[%dl]", i); gh_loc_is_constant[i] = a.i(k);
      snprintf(k, sizeof k, "gh_loc_expr_len[%dl]", i); gh_loc_expr_len[i] = a.i(k);
      snprintf(k, sizeof k, "gh_loc_atom[%dl]", i); gh_loc_atom[i] = a.i(k);
      snprintf(k, sizeof k, "gh_loc_number[%dl]", i); gh_loc_number[i] = a.u(k);
    }
  gh_big_endian = a.i("gh_big_endian");
  int die = a.i("in_die") ? 1 : 0;
  if (a.harness == "h_die_member_offset" || a.harness == "h_base_spec_offset")
    {
      if (!(GH_HAS(die, GA_data_bit_offset) || simple(die))) {printf("REPLAY: input outside the specified class\n"); return 0;}
      long got; int r = 1;
      if (a.harness == "h_die_member_offset") { got = a.i("in_offset"); r = w_die_member_offset(die, &got); }
      else got = w_base_spec_offset(die);
      REPLAY_EXPECT(r != 0 && (unsigned long) got == spec(die, gh_big_endian),
		    "die=%d big_endian=%d: code gives %s offset %ld (0x%lx), DWARF specifies %lu (0x%lx)",
		    die, gh_big_endian, r ? "" : "NO", got, (unsigned long) got, spec(die, gh_big_endian), spec(die, gh_big_endian));
    }
  else if (a.harness == "h_member_offset_pair")
    {
      long o4 = 0, o5 = 0; int r = w_member_offset_pair(&o4, &o5);
      REPLAY_EXPECT(r == 3 && o4 == o5, "DWARF4 description gives %ld, DWARF5 description gives %ld (r=%d)", o4, o5, r);
    }
  else if (a.harness == "h_read_and_convert")
    {
      unsigned long off = a.u("in_offset"); int be = a.i("in_big_endian");
      int r = w_read_and_convert(die, be, &off);
      REPLAY_EXPECT((r != 0) == (GH_HAS(die, GA_bit_offset) != 0) && (!r || off == delta(die, be)),
		    "die=%d be=%d: got r=%d off=%lu, expected %lu", die, be, r, off, delta(die, be));
    }
  else
    return 3;
  printf("REPLAY: postcondition holds on this input\n");
  return 0;
}
