#ifndef WORKERS_GHOST_H
#define WORKERS_GHOST_H
#ifdef __cplusplus
extern "C" {
#endif
extern int gh_lc_phase;
extern int gh_held_todo, gh_held_done;   /* this thread holds tasks_todo_mutex / tasks_done_mutex */
extern int gh_bad_lock;                  /* double lock, unlock of a mutex not held, wait without the mutex */
extern int gh_unguarded;                 /* tasks_todo touched without tasks_todo_mutex, or tasks_done / the notifier without tasks_done_mutex */
extern unsigned long gh_todo_n;          /* size of tasks_todo as this thread sees it while it holds the mutex */
/* accounting for the task this thread popped in the current iteration */
extern int gh_popped, gh_performed, gh_pushed_done, gh_notified, gh_wrong_task;
extern int gh_signalled_done;
/* schedule_task */
extern int gh_todo_pushed;
/* bring down */
extern unsigned long gh_nworkers, gh_joined;
extern int gh_down_set_unguarded;
#ifdef __cplusplus
}
#endif
#endif
