/* Contracts for U-workers (C32, safety part: every task exactly once, notifier once per task and
   never concurrently with itself).  One thread's view under a monitor model of POSIX threads:
     - tasks_todo is only touched under tasks_todo_mutex; tasks_done and the completion notifier only
       under tasks_done_mutex (so the notifier cannot run concurrently with itself);
     - no mutex is locked twice, unlocked when not held, or still held at the end of an iteration /
       at function exit;
     - a task taken from tasks_todo is performed once, appended to tasks_done once, notified once
       and signalled once before the worker can take another one.
   NOT decided: that wait_for_workers_to_complete always returns (liveness, lost wake-ups).     */
#include "vstd_c.h"
#include "ghost.h"
int gh_lc_phase, gh_held_todo, gh_held_done, gh_bad_lock, gh_unguarded, gh_popped, gh_performed, gh_pushed_done, gh_notified, gh_wrong_task, gh_signalled_done, gh_todo_pushed, gh_down_set_unguarded;
unsigned long gh_todo_n, gh_nworkers, gh_joined;
void w_worker_loop(void); int w_schedule_task(int null_task, unsigned long nworkers); void w_bring_down(unsigned long nworkers);
#define POST(c) __CPROVER_assert(c, "postcondition: " #c)
static void fresh(void)
{
  gh_held_todo = 0; gh_held_done = 0; gh_bad_lock = 0; gh_unguarded = 0; gh_popped = 0; gh_performed = 0; gh_pushed_done = 0; gh_notified = 0;
  gh_wrong_task = 0; gh_signalled_done = 0; gh_todo_pushed = 0; gh_joined = 0; gh_down_set_unguarded = 0; gh_todo_n = 0; gh_lc_phase = nondet_int();
}
void h_worker_loop(void)
{
  fresh();
  w_worker_loop();
  POST(!gh_bad_lock && !gh_unguarded && !gh_held_todo && !gh_held_done);
  POST(!gh_wrong_task && gh_performed == gh_popped && gh_pushed_done == gh_popped && gh_notified == gh_popped);
  CANARY_h_worker_loop;
}
void h_schedule_task(void)
{
  fresh();
  int in_null = nondet_int() != 0; unsigned long in_nw = nondet_ulong(); __CPROVER_assume(in_nw <= 2);
  int r = w_schedule_task(in_null, in_nw);
  POST(!gh_bad_lock && !gh_unguarded && !gh_held_todo && !gh_held_done);
  POST((r != 0) == (!in_null && in_nw != 0));
  POST(gh_todo_pushed == (r ? 1 : 0));              /* scheduled exactly once, or not at all */
  CANARY_h_schedule_task;
}
void h_bring_down(void)
{
  fresh();
  unsigned long in_nw = nondet_ulong(); __CPROVER_assume(in_nw <= 2);
  w_bring_down(in_nw);
  POST(!gh_bad_lock && !gh_unguarded && !gh_held_todo && !gh_held_done);
  POST(gh_joined == in_nw);                          /* every worker is joined once */
  POST(!gh_down_set_unguarded);                      /* the shutdown flag is set */
  CANARY_h_bring_down;
}
