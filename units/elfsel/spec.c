/* Contracts for U-elfsel.
   C18 ("the binary's relevant symbol table"): relocatable objects and executables are described by
   .symtab, shared objects by .dynsym; when the preferred table is absent the other one is used;
   there is no table iff neither exists.  C28: a binary is a Linux kernel binary iff it has a
   __ksymtab_strings section (vmlinux) or both .modinfo and .gnu.linkonce.this_module (a module). */
#include "vstd_c.h"
int gh_has_dynsym, gh_has_symtab, gh_etype, gh_has_ksymtab_strings, gh_has_modinfo, gh_has_this_module, gh_other_asked;
int w_symtab_choice(unsigned long *idx, int *found); int w_is_linux_kernel(void);
#define POST(c) __CPROVER_assert(c, "postcondition: " #c)
void h_symtab_choice(void)
{
  gh_has_dynsym = nondet_int() != 0; gh_has_symtab = nondet_int() != 0; gh_etype = nondet_int() & 0xffff;
  unsigned long idx; int found;
  int r = w_symtab_choice(&idx, &found);
  int prefers_symtab = gh_etype == 1 || gh_etype == 2;          /* ET_REL, ET_EXEC */
  POST((r == 0) == (!gh_has_dynsym && !gh_has_symtab));
  POST((prefers_symtab && gh_has_symtab) ==> r == 2);
  POST((prefers_symtab && !gh_has_symtab && gh_has_dynsym) ==> r == 1);
  POST((!prefers_symtab && gh_has_dynsym) ==> r == 1);
  POST((!prefers_symtab && !gh_has_dynsym && gh_has_symtab) ==> r == 2);
  POST((found != 0) == (r != 0));
  POST(r == 1 ==> idx == 5); POST(r == 2 ==> idx == 9);           /* the index is that of the chosen section */
  CANARY_h_symtab_choice;
}
void h_is_linux_kernel(void)
{
  gh_has_ksymtab_strings = nondet_int() != 0; gh_has_modinfo = nondet_int() != 0; gh_has_this_module = nondet_int() != 0; gh_other_asked = 0;
  int r = w_is_linux_kernel();
  POST((r != 0) == (gh_has_ksymtab_strings || (gh_has_modinfo && gh_has_this_module)));
  POST(!gh_other_asked);
  CANARY_h_is_linux_kernel;
}
