/* Contracts for U-gnuhash.
   C34: memory safety / no abort / no division by zero / termination of setup_gnu_ht,
   bloom_word_at and lookup_symbol_from_gnu_hash_tab for an arbitrary .gnu.hash section.
   C37 (GNU hash layout, as documented in the GNU hash section format: header {nbuckets, symoffset,
   bloom_size, bloom_shift}, bloom filter of bloom_size class-sized words, nbuckets bucket words,
   then one chain word per symbol from symoffset on; bucket[h % nbuckets] is the first symbol of
   the chain; chain word = hash with bit 0 replaced by the end-of-chain flag):
     start    : the walk starts at buckets[hash % nbuckets];
     examine  : every index from there up to where the walk ends whose chain word equals the hash
                (ignoring bit 0) is looked up in the symbol table;
     end      : the walk only ends at the end of the chain array, at a matching entry that carries
                the end-of-chain flag, or on a libelf failure;
     reporting: a looked-up symbol whose name equals the query is reported, and nothing else is. */
#include "vstd_c.h"
#include "hash_ghost.h"
typedef unsigned long size_t;
int gh_lc_phase; void *gh_ht_buf; unsigned long gh_ht_size, gh_hash, gh_w, gh_v, gh_calls, gh_w_visit_no, gh_cur_idx;
int gh_w_supported, gh_w_matches, gh_w_visited, gh_w_getsym_ok, gh_w_name_ok, gh_v_visited, gh_env_failed, gh_elf_class;
unsigned long gh_first; int gh_first_set; unsigned long gh_exit_i; int gh_exit_break;
unsigned long gh_created, gh_pushed, gh_w_created, gh_symtab_size, gh_symtab_entsize, gh_ht_index;

#define HT ((unsigned *) gh_ht_buf)
#define NWORDS (gh_ht_size / 4)
#define BLOOM_WORDS32 (gh_elf_class == 2 ? 2UL * BLOOM_NWORDS : BLOOM_NWORDS)   /* size of the bloom filter in 32-bit words */
#define NB ((unsigned long) HT[0])
#define SYMOFF ((unsigned long) HT[1])
#define BLOOM_NWORDS ((unsigned long) HT[2])
#define BLOOM_SHIFT ((unsigned long) HT[3])
#define TABLE_FITS (gh_ht_size >= 16 && NB != 0 && BLOOM_NWORDS != 0 && BLOOM_SHIFT < 64 \
                    && NWORDS - 4 >= BLOOM_WORDS32 + NB)

int w_setup_gnu_ht(size_t ht_index, size_t sym_tab_index, size_t *out);
int w_gnu_lookup(size_t ht_index, size_t sym_tab_index, int demangle);

static void env_init(void)
{
  gh_ht_size = nondet_ulong();
  __CPROVER_assume(gh_ht_size <= (1UL << 24));       /* a 16 MiB .gnu.hash section */
  unsigned *words = malloc((gh_ht_size / 4 + 2) * sizeof(unsigned));
  __CPROVER_assume(words != 0);
  gh_ht_buf = words;
  gh_hash = nondet_ulong(); gh_w = nondet_ulong(); gh_v = nondet_ulong(); gh_w_matches = nondet_int();
  __CPROVER_assume(gh_hash <= 0xffffffffUL);                     /* ELF hash values are 32-bit */
  __CPROVER_assume(gh_w < (1UL << 31) && gh_v < (1UL << 31));   /* symbol indexes libelf can address (int) */
  gh_symtab_size = nondet_ulong(); gh_symtab_entsize = nondet_ulong();
  gh_elf_class = nondet_int();
  __CPROVER_assume(gh_elf_class == 1 || gh_elf_class == 2);   /* libelf only hands out handles of class 32 or 64 */
  gh_lc_phase = nondet_int();
  gh_calls = 0; gh_w_visited = 0; gh_w_getsym_ok = 0; gh_w_name_ok = 0; gh_v_visited = 0; gh_w_supported = 0;
  gh_created = 0; gh_pushed = 0; gh_w_created = 0; gh_env_failed = 0; gh_first_set = 0; gh_exit_i = 0; gh_exit_break = 0;
}
#define POST(c) __CPROVER_assert(c, "postcondition: " #c)

/* setup_gnu_ht: succeeds only on a table that fits its section, and then describes it as the
   format says */
void h_setup_gnu_ht(void)
{
  env_init();
  size_t out[10];
  size_t in_ht_index = nondet_ulong(), in_sym_tab_index = nondet_ulong();
  gh_ht_index = in_ht_index;
  int ret = w_setup_gnu_ht(in_ht_index, in_sym_tab_index, out);
  POST(ret ==> (TABLE_FITS && gh_symtab_entsize != 0));
  POST((TABLE_FITS && gh_symtab_entsize != 0 && !gh_env_failed) ==> ret);
  POST(ret ==> (out[0] == NB && out[1] == SYMOFF && out[2] == BLOOM_NWORDS && out[4] == BLOOM_SHIFT));
  POST(ret ==> (out[3] == BLOOM_WORDS32));
  POST(ret ==> (out[7] == 4 && out[8] == 4 + out[3] && out[9] == 4 + out[3] + NB));
  POST(ret ==> (out[5] == NWORDS - 4 - out[3] - NB));
  CANARY_h_setup_gnu_ht;
}

void h_gnu_lookup(void)
{
  env_init();
  size_t in_ht_index = nondet_ulong(), in_sym_tab_index = nondet_ulong(); int in_demangle = nondet_int();
  gh_ht_index = in_ht_index;
  /* contract stated as assumptions and assertions around the call (no --dfcc: see DESIGN.md) */
  int ret = w_gnu_lookup(in_ht_index, in_sym_tab_index, in_demangle);
  /* reporting */
  POST((ret != 0) == (gh_created > 0));
  POST(gh_pushed == gh_created);
  /* (link properties: for tables whose symbol indexes fit libelf's int index, SMALL below) */
#define SMALL (!gh_first_set || gh_first <= (1UL << 30))
  POST((SMALL && gh_w_visited && gh_w_getsym_ok && gh_w_name_ok && gh_w_matches && gh_w_supported) ==> (gh_w_created >= 1 && ret != 0));
  POST((SMALL && gh_w_created >= 1) ==> (gh_w_matches && gh_w_visited));
  /* a table that does not fit its section means "not found" without touching the symbol table */
  POST(!TABLE_FITS ==> (ret == 0 && gh_calls == 0));
  /* examine: every index between the start of the walk and its end whose chain word equals the
     hash is looked up (the chain word is read where the walk runs: see the loop contract) */
  POST((gh_first_set && SMALL && gh_w >= gh_first && gh_w < gh_exit_i && gh_w_visited == 0)
       ==> ((HT[4 + BLOOM_WORDS32 + NB + (gh_w - SYMOFF)] & ~1u) != ((unsigned) gh_hash & ~1u)));
  /* visited indexes are within the walk and carry the hash */
  POST((SMALL && gh_w_visited) ==> (gh_first_set && gh_w >= gh_first && gh_w < gh_exit_i));
  CANARY_h_gnu_lookup;
}
