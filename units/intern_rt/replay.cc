// Native replay for U-intern-rt: interns the counterexample's contents in a real interned_string_pool
// (library) and evaluates the operators of the real header (inline, current text of /repo) against
// std::string's own comparison.
#include "replay_util.h"
#include <string>
#include "abg-interned-str.h"
using abigail::interned_string; using abigail::interned_string_pool;
static std::string get(const replay_args& a, const char* name, const char* nname)
{
  unsigned long n = a.u(nname, 0); std::string s;
  for (unsigned long i = 0; i < n && i < 8; ++i)
    {
      char k[32]; snprintf(k, sizeof k, "%s[%lul]", name, i);
      s.push_back((char) a.i(k, 0));
    }
  return s;
}
int main(int argc, char** argv)
{
  replay_args a(argc, argv);
  std::string sa = get(a, "in_a", "in_na"), sb = get(a, "in_b", "in_nb"), st = get(a, "in_t", "in_nt");
  interned_string_pool pool;
  interned_string ia = pool.create_string(sa), ib = pool.create_string(sb);
  printf("replaying with contents of %zu and %zu bytes, plain string of %zu bytes\n", sa.size(), sb.size(), st.size());
  REPLAY_EXPECT((ia == ib) == (sa == sb), "a == b is %d, contents equal is %d", ia == ib, sa == sb);
  REPLAY_EXPECT((ia != ib) == (sa != sb), "a != b");
  REPLAY_EXPECT((ia < ib) == (sa < sb), "a < b is %d, content(a) < content(b) is %d", ia < ib, sa < sb);
  REPLAY_EXPECT((ib < ia) == (sb < sa), "b < a is %d, content(b) < content(a) is %d", ib < ia, sb < sa);
  REPLAY_EXPECT((ia == st) == (sa == st), "a == t");
  REPLAY_EXPECT((ia != st) == (sa != st), "a != t");
  REPLAY_EXPECT((st == ia) == (sa == st), "t == a");
  REPLAY_EXPECT((st != ia) == (sa != st), "t != a");
  REPLAY_EXPECT(ia.empty() == sa.empty(), "empty()");
  REPLAY_EXPECT(std::string(ia) == sa, "conversion back");
  REPLAY_EXPECT(!(ia < ia), "irreflexive");
  printf("REPLAY: postconditions hold natively on this input\n");
  return 0;
}
