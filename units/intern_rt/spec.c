/* C42, bounded sibling of U-intern: for every pair of interned contents and every plain string of at
   most LEN bytes (all byte values, NUL included), the operators of interned_string answer like the
   contents do.  Precondition (proved in U-intern): two interned strings are the same object exactly
   when their contents are equal, and the empty content is the null interned string.             */
#include "vstd_c.h"
#ifndef LEN
#define LEN 3
#endif
void w_ops(const char *pa, unsigned long na, const char *pb, unsigned long nb, int same,
	   const char *pt, unsigned long nt, int *out);
/* reference: std::string comparison = lexicographic on unsigned char, shorter prefix first */
static int ref_cmp(const char *a, unsigned long na, const char *b, unsigned long nb)
{
  for (unsigned long i = 0; i < LEN; ++i)
    if (i < na && i < nb)
      {
	unsigned char x = (unsigned char) a[i], y = (unsigned char) b[i];
	if (x != y) return x < y ? -1 : 1;
      }
  return na < nb ? -1 : (na > nb ? 1 : 0);
}
char in_a[LEN + 1], in_b[LEN + 1], in_t[LEN + 1]; unsigned long in_na, in_nb, in_nt;
#define POST(c) __CPROVER_assert(c, "postcondition: " #c)
void h_ops(void)
{
  int o[11];
  in_na = nondet_ulong(); in_nb = nondet_ulong(); in_nt = nondet_ulong();
  __CPROVER_assume(in_na <= LEN && in_nb <= LEN && in_nt <= LEN);
  for (int i = 0; i < LEN; ++i) {in_a[i] = (char) nondet_int(); in_b[i] = (char) nondet_int(); in_t[i] = (char) nondet_int();}
  const char *a = in_a, *b = in_b, *t = in_t; unsigned long na = in_na, nb = in_nb, nt = in_nt;
  int ab = ref_cmp(a, na, b, nb), at = ref_cmp(a, na, t, nt);
  w_ops(a, na, b, nb, ab == 0, t, nt, o);
  POST((o[0] != 0) == (ab == 0));
  POST((o[1] != 0) == (ab != 0));
  POST((o[2] != 0) == (ab < 0));              /* order of the contents */
  POST((o[3] != 0) == (ab > 0));
  POST((o[4] != 0) == (at == 0));             /* comparisons with plain strings, both ways */
  POST((o[5] != 0) == (at != 0));
  POST((o[6] != 0) == (at == 0));
  POST((o[7] != 0) == (at != 0));
  POST((o[8] != 0) == (na == 0));
  POST(o[9]);
  POST(!o[10]);                               /* irreflexive */
  CANARY_h_ops;
}
