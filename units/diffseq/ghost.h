/* ghost interface of U-diffseq: the two sequences are abstracted to their comparison matrix.
   Element i of A is the integer i, element j of B is the integer j, and the caller-supplied
   equality functor answers gh_eq[i][j] - an arbitrary relation (any pair of concrete sequences
   with any predicate induces such a matrix, and every matrix is explored).                   */
#ifndef DIFFSEQ_GHOST_H
#define DIFFSEQ_GHOST_H
#ifndef NMAX
#define NMAX 3
#endif
#define OUTCAP (NMAX + 1)
/* one result of compute_diff, flattened into an int buffer (a struct shared between the C and the
   C++ translation unit is rejected by the goto linker): the points appended to lcs, the script, ses_len */
#define R_LCS_N 0
#define R_LCS_X(k) (1 + (k))
#define R_LCS_Y(k) (1 + OUTCAP + (k))
#define R_DEL_N (1 + 2 * OUTCAP)
#define R_DEL(k) (2 + 2 * OUTCAP + (k))
#define R_INS_N (2 + 3 * OUTCAP)
#define R_INS_POINT(q) (3 + 3 * OUTCAP + (q))
#define R_INS_CNT(q) (3 + 4 * OUTCAP + (q))
#define R_INS_IDX(q, s) (3 + 5 * OUTCAP + (q) * (NMAX + 1) + (s))
#define R_SES_LEN (3 + 5 * OUTCAP + OUTCAP * (NMAX + 1))
#define R_ES_LENGTH (R_SES_LEN + 1)
#define R_SIZE (R_SES_LEN + 2)
#ifdef __cplusplus
extern "C" {
#endif
extern unsigned char gh_eq[NMAX][NMAX];
extern int gh_eq_calls_oob;            /* the functor was asked about an element outside [0,n)x[0,m) */
extern int gh_n, gh_m;
extern int out[R_SIZE];                /* what the real compute_diff produced */
extern int rec[R_SIZE];                /* what the contract of a recursive call produces */
extern int gh_prior_kept;              /* the points already in lcs on entry are still there, in place */
/* the contract of compute_diff applied at a recursive call site: checks the call's precondition and
   the descent of the measure, then fills `rec` with an arbitrary result satisfying the postcondition */
void gh_rec_contract(int a0, int a1, int b0, int b1, int ses_is_empty);
void w_compute_diff7(void);
void w_compute_diff9(int a0, int a1, int b0, int b1, int prior);
/* what a forwarding overload passed to its callee */
extern int fw_calls, fw_tag, fw_has_base, fw_a_base, fw_a_begin, fw_a_end, fw_b_base, fw_b_begin, fw_b_end;
extern int fw_lcs_same, fw_lcs_empty, fw_ses_same, fw_len_zero, fw_outputs_untouched;
void w_forward(int which, int a0, int a1, int b0, int b1);
#ifdef __cplusplus
}
#endif
#endif
