// Native replay for U-diffseq: runs the REAL templates of include/abg-diff-utils.h (and the real
// src/abg-diff-utils.cc, compiled in) with the real recursion on the comparison matrix of the
// verifier's counterexample, for the whole sequences and for every sub-range (the 9-argument
// overload is public API too), and evaluates the same postcondition (spec.c: contract_post).
// A counterexample of the induction step need not be a failing input by itself (the callee result
// is the contract's, not the real one), so when the matrix does not reproduce, every matrix with
// n, m <= NMAX is tried and the first failing input is reported.
#include <cstdio>
#include <cstdlib>
#include <cstring>
#include <string>
#include <vector>
#include "replay_util.h"
#ifndef NMAX
#define NMAX 3
#endif
static int rp_fail; static const char* rp_msg;
#define __CPROVER_assert(c, m) do { if (!(c) && !rp_fail) { rp_fail = 1; rp_msg = m; } } while (0)
#define __CPROVER_assume(c) ((void) 0)
#define __CPROVER_havoc_object(p) ((void) 0)
#define VSTD_C_H
#define CANARY_h_compute_diff9
#define CANARY_h_compute_diff7
#define CANARY_h_forwarding
extern "C" { int nondet_int(void) {return 0;} unsigned char nondet_uchar(void) {return 0;} }
#include "spec.c"
extern "C" { void w_compute_diff7(void) {} void w_compute_diff9(int, int, int, int, int) {} void w_forward(int, int, int, int, int) {} }
#undef __CPROVER_assert
#include "abg-diff-utils.cc"

using namespace abigail::diff_utils;
struct matrix_eq
{
  bool operator()(int a, int b) const
  {
    if (a < 0 || a >= gh_n || b < 0 || b >= gh_m) {gh_eq_calls_oob = 1; return false;}
    return gh_eq[a][b] != 0;
  }
};
static int seq_a[NMAX + 1], seq_b[NMAX + 1];
static bool fits = true;
static void flatten(std::vector<point>& lcs, edit_script& ses, int ses_len)
{
  memset(out, 0, sizeof out);
  fits = true;
  out[R_SES_LEN] = ses_len;
  out[R_ES_LENGTH] = ses.length();
  out[R_LCS_N] = (int) lcs.size();
  for (int i = 0; i < OUTCAP && i < out[R_LCS_N]; ++i) {out[R_LCS_X(i)] = lcs[i].x(); out[R_LCS_Y(i)] = lcs[i].y();}
  out[R_DEL_N] = (int) ses.deletions().size();
  for (int i = 0; i < OUTCAP && i < out[R_DEL_N]; ++i) out[R_DEL(i)] = ses.deletions()[i].index();
  out[R_INS_N] = (int) ses.insertions().size();
  for (int i = 0; i < OUTCAP && i < out[R_INS_N]; ++i)
    {
      out[R_INS_POINT(i)] = ses.insertions()[i].insertion_point_index();
      out[R_INS_CNT(i)] = (int) ses.insertions()[i].inserted_indexes().size();
      for (int j = 0; j < NMAX + 1 && j < out[R_INS_CNT(i)]; ++j)
	out[R_INS_IDX(i, j)] = (int) ses.insertions()[i].inserted_indexes()[j];
    }
}
// returns true when the real code violates the postcondition on this range of the current matrix
static bool violates(int a0, int a1, int b0, int b1, bool verbose)
{
  for (int i = 0; i < NMAX + 1; ++i) {seq_a[i] = i; seq_b[i] = i;}
  std::vector<point> lcs; edit_script ses; int ses_len = 0;
  const int* a = seq_a; const int* b = seq_b;
  gh_eq_calls_oob = 0; rp_fail = 0; rp_msg = 0;
  compute_diff<const int*, matrix_eq>(a, a + a0, a + a1, b, b + b0, b + b1, lcs, ses, ses_len);
  flatten(lcs, ses, ses_len);
  if (gh_eq_calls_oob) {rp_fail = 1; rp_msg = "L5 the predicate is only applied to elements of the two sequences";}
  if (!rp_fail) contract_post(a0, a1, b0, b1, out, 1);
  if (rp_fail && verbose)
    {
      printf("REPLAY-CONFIRMED: %s\n  n=%d m=%d range A[%d,%d) B[%d,%d) matrix rows:", rp_msg, gh_n, gh_m, a0, a1, b0, b1);
      for (int i = 0; i < gh_n; ++i) {printf(" "); for (int j = 0; j < gh_m; ++j) printf("%d", gh_eq[i][j] != 0);}
      printf("\n  real result: ses_len=%d length()=%d lcs:", ses_len, ses.length());
      for (size_t i = 0; i < lcs.size(); ++i) printf(" (%d,%d)", lcs[i].x(), lcs[i].y());
      printf(" deletions:");
      for (size_t i = 0; i < ses.deletions().size(); ++i) printf(" %d", ses.deletions()[i].index());
      printf(" insertions:");
      for (size_t i = 0; i < ses.insertions().size(); ++i)
	{
	  printf(" after %d:[", ses.insertions()[i].insertion_point_index());
	  for (size_t j = 0; j < ses.insertions()[i].inserted_indexes().size(); ++j) printf("%s%u", j ? "," : "", ses.insertions()[i].inserted_indexes()[j]);
	  printf("]");
	}
      printf("\n");
    }
  return rp_fail != 0;
}
static bool any_range_violates(bool whole_only)
{
  if (violates(0, gh_n, 0, gh_m, true)) return true;
  if (whole_only) return false;
  for (int a0 = 0; a0 <= gh_n; ++a0) for (int a1 = a0; a1 <= gh_n; ++a1)
    for (int b0 = 0; b0 <= gh_m; ++b0) for (int b1 = b0; b1 <= gh_m; ++b1)
      if (violates(a0, a1, b0, b1, true)) return true;
  return false;
}
int main(int argc, char** argv)
{
  replay_args a(argc, argv);
  gh_n = (int) a.i("gh_n", 0); gh_m = (int) a.i("gh_m", 0);
  if (gh_n < 0 || gh_n > NMAX || gh_m < 0 || gh_m > NMAX) {printf("REPLAY: sizes outside the bounded model\n"); return 0;}
  for (int i = 0; i < NMAX; ++i)
    for (int j = 0; j < NMAX; ++j)
      {
	char k[64]; snprintf(k, sizeof k, "gh_eq[%dl][%dl]", i, j);
	gh_eq[i][j] = a.u(k, 0) != 0;
      }
  printf("replaying the real compute_diff on the counterexample matrix (n=%d, m=%d), all ranges\n", gh_n, gh_m);
  if (any_range_violates(false)) return 1;
  printf("the counterexample matrix does not fail by itself (induction-step counterexample); trying every matrix with n, m <= %d\n", NMAX);
  for (gh_n = 0; gh_n <= NMAX; ++gh_n)
    for (gh_m = 0; gh_m <= NMAX; ++gh_m)
      for (unsigned long bits = 0; bits < (1ul << (gh_n * gh_m)); ++bits)
	{
	  for (int i = 0; i < gh_n; ++i) for (int j = 0; j < gh_m; ++j) gh_eq[i][j] = (bits >> (i * gh_m + j)) & 1;
	  if (any_range_violates(false)) return 1;
	}
  printf("REPLAY: no matrix with n, m <= %d makes the real code violate the postcondition\n", NMAX);
  return 0;
}
