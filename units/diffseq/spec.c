/* C38 - the contract of compute_diff (9-argument overload; the 7-argument overload is the instance
   a_base == a_begin, b_base == b_begin), for the comparison matrix abstraction of ghost.h:

   requires  0 <= a0 <= a1 <= n, 0 <= b0 <= b1 <= m, ses empty on entry
   ensures   (L1) the points appended to lcs lie in [a0,a1) x [b0,b1), are matches of the predicate
                  and strictly increase in x and in y; the points already in lcs are untouched;
             (L2) their number is LCS(A[a0,a1), B[b0,b1)), computed here by the textbook dynamic
                  programme;
             (L3) ses_len == edit_script::length() == (a1-a0) + (b1-b0) - 2 LCS;
             (L4) applying the script to A[a0,a1) (drop the deleted indexes, put the inserted elements
                  of B after their insertion point, in script order) yields b1-b0 elements whose j-th is
                  B[b0+j] itself or a kept A[i] with eq(A[i], B[b0+j]);
             (L5) the predicate is never asked about an element outside the two sequences.

   h_compute_diff9 checks the real text against this contract for EVERY range of EVERY matrix with
   n, m <= NMAX; its two recursive calls are replaced by the same contract (gh_rec_contract) on a
   strictly smaller range (checked: termination measure), i.e. the proof is by induction on the
   range size and needs no recursion unwinding.  compute_middle_snake and everything below it is
   inlined: its loops are unwound up to the stated bound (BOUNDED, unwinding assertions on).     */
#include "vstd_c.h"
#include "ghost.h"
unsigned char nondet_uchar(void);
unsigned char gh_eq[NMAX][NMAX];
int gh_eq_calls_oob;
int gh_n, gh_m;
int out[R_SIZE], rec[R_SIZE];
int gh_prior_kept;
static int cur_a0, cur_a1, cur_b0, cur_b1;
/* which outputs the overload under check has: the ses-only overloads report no lcs, and only two report ses_len */
static int chk_lcs = 1, chk_len = 1;

static int lcs_range(int a0, int a1, int b0, int b1)
{
  int L[NMAX + 1][NMAX + 1];
  for (int i = 0; i <= NMAX; ++i)
    for (int j = 0; j <= NMAX; ++j)
      {
	if (i <= a0 || j <= b0 || i > a1 || j > b1) L[i][j] = 0;
	else
	  {
	    int best = L[i - 1][j] > L[i][j - 1] ? L[i - 1][j] : L[i][j - 1];
	    if (gh_eq[i - 1][j - 1] && L[i - 1][j - 1] + 1 > best) best = L[i - 1][j - 1] + 1;
	    L[i][j] = best;
	  }
      }
  return (a1 > a0 && b1 > b0) ? L[a1][b1] : 0;
}

/* the postcondition, used on both sides: chk != 0 -> every clause is an obligation on *r (the real
   code's result); chk == 0 -> returns whether *r satisfies every clause (assumed for a callee) */
#define REQ(c, msg) do { if (chk) __CPROVER_assert(c, msg); else ok = ok && (c); } while (0)
static int contract_post(int a0, int a1, int b0, int b1, const int *r, int chk)
{
  int ok = 1;
  int lcs = lcs_range(a0, a1, b0, b1);
  /* L1, L2 */
  if (!chk || chk_lcs)
    {
      REQ(0 <= r[R_LCS_N] && r[R_LCS_N] <= NMAX, "L1 lcs gains at most min(|A|,|B|) points");
      for (int k = 0; k < NMAX; ++k)
	if (k < r[R_LCS_N])
	  {
	    int x = r[R_LCS_X(k)], y = r[R_LCS_Y(k)];
	    int in = a0 <= x && x < a1 && b0 <= y && y < b1;
	    REQ(in, "L1 lcs point inside the compared ranges");
	    if (in) REQ(gh_eq[x][y], "L1 lcs point is a match of the predicate");
	    if (k > 0) REQ(r[R_LCS_X(k - 1)] < x && r[R_LCS_Y(k - 1)] < y, "L1 lcs points strictly increasing");
	  }
      REQ(r[R_LCS_N] == lcs, "L2 reported common subsequence has length LCS(A,B)");
    }
  /* L3 */
  REQ(r[R_ES_LENGTH] == (a1 - a0) + (b1 - b0) - 2 * lcs, "L3 edit_script::length() == |A| + |B| - 2 LCS(A,B)");
  if (!chk || chk_len)
    REQ(r[R_ES_LENGTH] == r[R_SES_LEN], "L3 ses_len == edit_script::length()");
  /* L4 */
  REQ(0 <= r[R_DEL_N] && r[R_DEL_N] <= NMAX, "L4 at most |A| deletions");
  REQ(0 <= r[R_INS_N] && r[R_INS_N] <= NMAX, "L4 at most |B| insertions");
  int deleted[NMAX];
  for (int i = 0; i < NMAX; ++i) deleted[i] = 0;
  for (int k = 0; k < NMAX; ++k)
    if (k < r[R_DEL_N])
      {
	int i = r[R_DEL(k)];
	int in = a0 <= i && i < a1;
	REQ(in, "L4 deleted index inside the A range");
	if (in)
	  {
	    REQ(!deleted[i], "L4 an element of A is deleted at most once");
	    deleted[i] = 1;
	  }
      }
  int total_ins = 0;
  for (int q = 0; q < OUTCAP; ++q)
    if (q < r[R_INS_N])
      {
	REQ(a0 - 1 <= r[R_INS_POINT(q)] && r[R_INS_POINT(q)] < (a1 > a0 ? a1 : a0), "L4 insertion point is an index of the A range or the one before it");
	/* ">= 1" is not demanded by C38; it makes the bound on the number of insertions inductive */
	REQ(1 <= r[R_INS_CNT(q)] && r[R_INS_CNT(q)] <= NMAX, "L4 an insertion carries between 1 and |B| elements");
	total_ins += (0 <= r[R_INS_CNT(q)] && r[R_INS_CNT(q)] <= NMAX) ? r[R_INS_CNT(q)] : 0;
      }
  REQ(r[R_ES_LENGTH] == r[R_DEL_N] + total_ins, "L4 edit_script::length() counts the deletions and inserted elements");
  int res_from_b[2 * NMAX + 1], res_idx[2 * NMAX + 1], pos = 0, overflow = 0;
  for (int i = -1; i < NMAX; ++i)
    if (a0 - 1 <= i && i < (a1 > a0 ? a1 : a0))
      {
	if (i >= a0 && i < a1 && !deleted[i])
	  {
	    if (pos < 2 * NMAX + 1) {res_from_b[pos] = 0; res_idx[pos] = i; pos++;} else overflow = 1;
	  }
	for (int q = 0; q < OUTCAP; ++q)
	  if (q < r[R_INS_N] && r[R_INS_POINT(q)] == i)
	    for (int s = 0; s < NMAX; ++s)
	      if (s < r[R_INS_CNT(q)])
		{
		  if (pos < 2 * NMAX + 1) {res_from_b[pos] = 1; res_idx[pos] = r[R_INS_IDX(q, s)]; pos++;} else overflow = 1;
		}
      }
  REQ(!overflow && pos == b1 - b0, "L4 applying the script to A yields |B| elements");
  for (int j = 0; j < NMAX; ++j)
    if (j < b1 - b0 && j < pos)
      {
	if (res_from_b[j])
	  REQ(res_idx[j] == b0 + j, "L4 inserted element is B[j] at position j");
	else
	  REQ(gh_eq[res_idx[j]][b0 + j], "L4 kept element of A matches B[j] at position j");
      }
  return ok;
}

void gh_rec_contract(int a0, int a1, int b0, int b1, int ses_is_empty)
{
  __CPROVER_assert(0 <= a0 && a0 <= a1 && a1 <= gh_n && 0 <= b0 && b0 <= b1 && b1 <= gh_m,
		   "recursive call: ranges are inside the two sequences (precondition)");
  __CPROVER_assert(ses_is_empty, "recursive call: the edit script passed in is empty (precondition)");
  __CPROVER_assert((a1 - a0) + (b1 - b0) < (cur_a1 - cur_a0) + (cur_b1 - cur_b0),
		   "recursive call: the compared ranges shrink (termination, induction measure)");
  __CPROVER_assume(0 <= a0 && a0 <= a1 && a1 <= gh_n && 0 <= b0 && b0 <= b1 && b1 <= gh_m);
  __CPROVER_havoc_object(rec);
  __CPROVER_assume(contract_post(a0, a1, b0, b1, rec, 0));
}

static void any_matrix(void)
{
  gh_n = nondet_int(); gh_m = nondet_int();
  __CPROVER_assume(0 <= gh_n && gh_n <= NMAX && 0 <= gh_m && gh_m <= NMAX);
  for (int i = 0; i < NMAX; ++i)
    for (int j = 0; j < NMAX; ++j)
      gh_eq[i][j] = nondet_uchar();
  gh_eq_calls_oob = 0;
}

void h_compute_diff9(void)
{
  any_matrix();
  cur_a0 = nondet_int(); cur_a1 = nondet_int(); cur_b0 = nondet_int(); cur_b1 = nondet_int();
  __CPROVER_assume(0 <= cur_a0 && cur_a0 <= cur_a1 && cur_a1 <= gh_n && 0 <= cur_b0 && cur_b0 <= cur_b1 && cur_b1 <= gh_m);
  int prior = nondet_int();
  w_compute_diff9(cur_a0, cur_a1, cur_b0, cur_b1, prior);
  __CPROVER_assert(!gh_eq_calls_oob, "L5 the predicate is only applied to elements of the two sequences");
  __CPROVER_assert(gh_prior_kept, "L1 the points already in lcs are kept");
  contract_post(cur_a0, cur_a1, cur_b0, cur_b1, out, 1);
  CANARY_h_compute_diff9;
}

void h_compute_diff7(void)
{
  any_matrix();
  cur_a0 = 0; cur_a1 = gh_n; cur_b0 = 0; cur_b1 = gh_m;
  w_compute_diff7();
  __CPROVER_assert(!gh_eq_calls_oob, "L5 the predicate is only applied to elements of the two sequences");
  contract_post(0, gh_n, 0, gh_m, out, 1);
  CANARY_h_compute_diff7;
}

/* The forwarding overloads.  Each consists of one call; it is checked against the contract of ITS callee (the call
   goes to a recording stub): same functor (the default one for the two overloads without a functor parameter), the
   caller's ranges with base := begin where the overload has no base arguments, the caller's lcs / ses objects (a
   fresh empty lcs for the ses-only overload, ses_len starting at 0), exactly one call and nothing else touched.
   With that, the contract of compute_diff (9 arguments) is the contract of every overload.                      */
int fw_calls, fw_tag, fw_has_base, fw_a_base, fw_a_begin, fw_a_end, fw_b_base, fw_b_begin, fw_b_end;
int fw_lcs_same, fw_lcs_empty, fw_ses_same, fw_len_zero, fw_outputs_untouched;
void h_forwarding(void)
{
  int which = nondet_int();
  __CPROVER_assume(which == 8 || which == 6 || which == 60 || which == 7 || which == 5 || which == 50);
  int a0 = nondet_int(), a1 = nondet_int(), b0 = nondet_int(), b1 = nondet_int();
  __CPROVER_assume(0 <= a0 && a0 <= a1 && a1 <= NMAX && 0 <= b0 && b0 <= b1 && b1 <= NMAX);
  fw_calls = 0; fw_tag = 0; fw_lcs_same = 0; fw_ses_same = 0; fw_lcs_empty = 0; fw_len_zero = 0;
  w_forward(which, a0, a1, b0, b1);
  int has_base = (which == 8 || which == 7);
  __CPROVER_assert(fw_calls == 1, "forwarding overload makes exactly one call");
  __CPROVER_assert(fw_tag == ((which == 60 || which == 50) ? 2 : 1), "forwarding overload passes the caller's predicate on (default_eq_functor when it has none)");
  __CPROVER_assert(fw_a_begin == a0 && fw_a_end == a1 && fw_b_begin == b0 && fw_b_end == b1, "forwarding overload passes the caller's ranges on");
  __CPROVER_assert(has_base ? (fw_a_base == 0 && fw_b_base == 0) : (fw_a_base == a0 && fw_b_base == b0), "forwarding overload passes the caller's bases on (base := begin when it has none)");
  __CPROVER_assert(fw_ses_same, "forwarding overload passes the caller's edit script on");
  if (which == 8 || which == 6 || which == 60) __CPROVER_assert(fw_lcs_same, "forwarding overload passes the caller's lcs vector on");
  if (which == 7) __CPROVER_assert(fw_lcs_empty, "ses-only overload hands a fresh, empty lcs vector to its callee");
  if (which == 8) __CPROVER_assert(fw_len_zero, "ses_len starts at 0");
  __CPROVER_assert(fw_outputs_untouched, "forwarding overload itself adds nothing to lcs / ses");
  CANARY_h_forwarding;
}
