/* ghost observations for U-elfmap (scalars only) */
#ifndef ELFMAP_GHOST_H
#define ELFMAP_GHOST_H
#ifdef __cplusplus
extern "C" {
#endif
extern int gh_created;               /* number of elf_symbol::create calls */
extern unsigned long gh_c_index, gh_c_size;
extern int gh_c_type, gh_c_binding, gh_c_defined, gh_c_common, gh_c_visibility;
extern int gh_ksym_inserted, gh_ksym_key_id, gh_crc_inserted;
extern int gh_key_is_new;   /* input: the name inserted into the exported-names set / crc map was not there yet */
extern unsigned long gh_substr_pos;
#ifdef __cplusplus
}
#endif
#endif
