/* Contracts for U-elfmap.  Oracle: ELF gABI symbol table chapter + GNU extensions (elf.h values
   are in the stub environment), and the statement of C18: the ABI symbol tables hold "exactly the
   defined, global or weak, default- or protected-visibility function and data symbols";
   "binding, type, size and visibility agree".  C28: kernel binaries expose exactly the public
   symbols exported through ksymtab.                                                        */
#include "vstd_c.h"
#include "ghost.h"
typedef unsigned long size_t;
typedef unsigned long uint64_t;
int gh_created, gh_c_type, gh_c_binding, gh_c_defined, gh_c_common, gh_c_visibility;
unsigned long gh_c_index, gh_c_size, gh_substr_pos;
int gh_ksym_inserted, gh_ksym_key_id, gh_crc_inserted;
int gh_key_is_new;

/* enumerator values of elf_symbol::type / binding / visibility, loaded from the real enums */
int T[8], B[4], V[4];
enum { T_NOTYPE, T_OBJECT, T_FUNC, T_SECTION, T_FILE, T_COMMON, T_TLS, T_IFUNC };
enum { B_LOCAL, B_GLOBAL, B_WEAK, B_UNIQUE };
enum { V_DEFAULT, V_PROTECTED, V_HIDDEN, V_INTERNAL };
int w_sym_enum(int what, int i);

#define STT_OK(v) ((v) <= 6 || (v) == 10)
#define STB_OK(v) ((v) <= 2 || (v) == 10)
#define SPEC_STT(v) ((v) == 0 ? T[T_NOTYPE] : (v) == 1 ? T[T_OBJECT] : (v) == 2 ? T[T_FUNC] : (v) == 3 ? T[T_SECTION] \
                     : (v) == 4 ? T[T_FILE] : (v) == 5 ? T[T_COMMON] : (v) == 6 ? T[T_TLS] : T[T_IFUNC])
#define SPEC_STB(v) ((v) == 0 ? B[B_LOCAL] : (v) == 1 ? B[B_GLOBAL] : (v) == 2 ? B[B_WEAK] : B[B_UNIQUE])
#define SPEC_STV(v) ((v) == 0 ? V[V_DEFAULT] : (v) == 1 ? V[V_INTERNAL] : (v) == 2 ? V[V_HIDDEN] : V[V_PROTECTED])

/* the mapping functions: defined exactly on the values the gABI/GNU define (anything else reaches
   ABG_ASSERT_NOT_REACHED, which callers must exclude), and equal to the gABI table there */
int w_stt(int v)
__CPROVER_requires(0 <= v && v <= 255 && STT_OK(v))
__CPROVER_ensures(__CPROVER_return_value == SPEC_STT(v))
__CPROVER_assigns()
CANARY_w_stt
;
int w_stb(int v)
__CPROVER_requires(0 <= v && v <= 255 && STB_OK(v))
__CPROVER_ensures(__CPROVER_return_value == SPEC_STB(v))
__CPROVER_assigns()
CANARY_w_stb
;
int w_stv(int v)
__CPROVER_requires(0 <= v && v <= 3)
__CPROVER_ensures(__CPROVER_return_value == SPEC_STV(v))
__CPROVER_assigns()
CANARY_w_stv
;

int w_sym_pred(int which, int type, int binding, int visibility, int defined)
__CPROVER_requires(0 <= which && which <= 2)
/* C18: public = defined, global or weak, default or protected visibility.  STB_GNU_UNIQUE (a GNU
   flavour of global on which the statement is silent) is left unconstrained. */
__CPROVER_ensures((which == 0 && defined && (binding == B[B_GLOBAL] || binding == B[B_WEAK])
                   && (visibility == V[V_DEFAULT] || visibility == V[V_PROTECTED])) ==> __CPROVER_return_value != 0)
__CPROVER_ensures((which == 0 && (!defined || binding == B[B_LOCAL]
                                  || visibility == V[V_HIDDEN] || visibility == V[V_INTERNAL])) ==> __CPROVER_return_value == 0)
__CPROVER_ensures(which == 1 ==> ((__CPROVER_return_value != 0) == (type == T[T_FUNC] || type == T[T_IFUNC])))
__CPROVER_ensures(which == 2 ==> ((__CPROVER_return_value != 0) == (type == T[T_OBJECT] || type == T[T_TLS])))
__CPROVER_assigns()
CANARY_w_sym_pred
;

#define IS_FUNCTION(t) ((t) == T[T_FUNC] || (t) == T[T_IFUNC])
#define IS_VARIABLE(t) ((t) == T[T_OBJECT] || (t) == T[T_TLS])
#define IS_PUBLIC_STRICT(b, v, d) ((d) && ((b) == B[B_GLOBAL] || (b) == B[B_WEAK]) && ((v) == V[V_DEFAULT] || (v) == V[V_PROTECTED]))
int w_filter_matches(int functions, int variables, int publics, int undefined, int kernel,
                     int type, int binding, int visibility, int defined, int in_ksymtab)
__CPROVER_requires(binding != B[B_UNIQUE])
/* every criterion that is set must agree with the symbol; unset criteria do not matter */
__CPROVER_ensures((__CPROVER_return_value != 0) ==
   ((functions < 0 || (functions != 0) == IS_FUNCTION(type))
    && (variables < 0 || (variables != 0) == IS_VARIABLE(type))
    && (publics < 0 || (publics != 0) == IS_PUBLIC_STRICT(binding, visibility, defined))
    && (undefined < 0 || (undefined != 0) != (defined != 0))
    && (kernel < 0 || (kernel != 0) == (in_ksymtab != 0))))
__CPROVER_assigns()
CANARY_w_filter_matches
;

/* C28: the filter a corpus is built with keeps exactly the public symbols, and for a kernel binary
   exactly the public symbols that are in ksymtab */
int w_default_filter_matches(int is_kernel_binary, int type, int binding, int visibility, int defined, int in_ksymtab)
__CPROVER_requires(binding != B[B_UNIQUE])
__CPROVER_ensures((__CPROVER_return_value != 0) ==
   (IS_PUBLIC_STRICT(binding, visibility, defined) && (!is_kernel_binary || in_ksymtab)))
__CPROVER_assigns()
CANARY_w_default_filter_matches
;

/* symtab::load_ per-symbol region */
#define ST_TYPE (st_info & 0xf)
#define ST_BIND ((st_info >> 4) & 0xf)
#define KSYM_MARKER (is_kernel && name_has_ksymtab_prefix)
#define CRC_MARKER (is_kernel && !name_has_ksymtab_prefix && name_has_crc_prefix)
#define KEPT (!KSYM_MARKER && !CRC_MARKER \
   && (ST_TYPE == 2 || ST_TYPE == 10 || ST_TYPE == 6 || (ST_TYPE == 1 && st_shndx != 0xfff1)) && STB_OK(ST_BIND))
void w_load_symbol(size_t index, int st_info, int st_other, int st_shndx, uint64_t st_size,
                   int is_kernel, int name_has_ksymtab_prefix, int name_has_crc_prefix)
__CPROVER_requires(0 <= st_info && st_info <= 255 && 0 <= st_other && st_other <= 255 && 0 <= st_shndx && st_shndx <= 0xffff)
__CPROVER_requires(gh_created == 0 && gh_ksym_inserted == 0 && gh_crc_inserted == 0)
/* functions (incl. IFUNC), TLS and non-absolute objects with a known binding are recorded, once */
__CPROVER_ensures(gh_created == (KEPT ? 1 : 0))
/* with the fields of the ELF symbol, mapped by the gABI tables */
__CPROVER_ensures(KEPT ==> (gh_c_index == index && gh_c_size == st_size
                            && gh_c_type == SPEC_STT(ST_TYPE) && gh_c_binding == SPEC_STB(ST_BIND)
                            && gh_c_visibility == SPEC_STV(st_other & 3)
                            && (gh_c_defined != 0) == (st_shndx != 0) && (gh_c_common != 0) == (st_shndx == 0xfff2)))
/* C28: __ksymtab_<sym> markers of a kernel binary record <sym> (the name minus 10 characters) as exported */
__CPROVER_ensures(gh_ksym_inserted == (KSYM_MARKER ? 1 : 0))
__CPROVER_ensures(KSYM_MARKER ==> (gh_ksym_key_id == 7 && gh_substr_pos == 10))
__CPROVER_ensures(gh_crc_inserted == (CRC_MARKER ? 1 : 0))
__CPROVER_assigns(gh_created, gh_c_index, gh_c_size, gh_c_type, gh_c_binding, gh_c_defined, gh_c_common, gh_c_visibility,
                  gh_ksym_inserted, gh_ksym_key_id, gh_crc_inserted, gh_substr_pos)
CANARY_w_load_symbol
;

static void load_enums(void)
{
  T[0] = w_sym_enum(0, 0); T[1] = w_sym_enum(0, 1); T[2] = w_sym_enum(0, 2); T[3] = w_sym_enum(0, 3);
  T[4] = w_sym_enum(0, 4); T[5] = w_sym_enum(0, 5); T[6] = w_sym_enum(0, 6); T[7] = w_sym_enum(0, 7);
  B[0] = w_sym_enum(1, 0); B[1] = w_sym_enum(1, 1); B[2] = w_sym_enum(1, 2); B[3] = w_sym_enum(1, 3);
  V[0] = w_sym_enum(2, 0); V[1] = w_sym_enum(2, 1); V[2] = w_sym_enum(2, 2); V[3] = w_sym_enum(2, 3);
}
/* lemma: the enumerators of each enum are pairwise distinct (so the mappings are injective) */
void h_sym_enums(void)
{
  load_enums();
  int in_i = nondet_int(), in_j = nondet_int();
  __CPROVER_assume(0 <= in_i && in_i < 8 && 0 <= in_j && in_j < 8 && in_i != in_j);
  __CPROVER_assert(T[in_i] != T[in_j], "elf_symbol::type enumerators are pairwise distinct");
  __CPROVER_assert(in_i >= 4 || in_j >= 4 || B[in_i] != B[in_j], "elf_symbol::binding enumerators are pairwise distinct");
  __CPROVER_assert(in_i >= 4 || in_j >= 4 || V[in_i] != V[in_j], "elf_symbol::visibility enumerators are pairwise distinct");
  CANARY_h_sym_enums;
}
void h_stt(void) { load_enums(); int in_v = nondet_int(); w_stt(in_v); }
void h_stb(void) { load_enums(); int in_v = nondet_int(); w_stb(in_v); }
void h_stv(void) { load_enums(); int in_v = nondet_int(); w_stv(in_v); }
void h_sym_pred(void)
{
  load_enums();
  int in_which = nondet_int(), in_type = nondet_int(), in_binding = nondet_int(), in_visibility = nondet_int(), in_defined = nondet_int();
  w_sym_pred(in_which, in_type, in_binding, in_visibility, in_defined);
}
void h_filter_matches(void)
{
  load_enums();
  int in_functions = nondet_int(), in_variables = nondet_int(), in_publics = nondet_int(), in_undefined = nondet_int(),
      in_kernel = nondet_int(), in_type = nondet_int(), in_binding = nondet_int(), in_visibility = nondet_int(),
      in_defined = nondet_int(), in_in_ksymtab = nondet_int();
  w_filter_matches(in_functions, in_variables, in_publics, in_undefined, in_kernel, in_type, in_binding,
                   in_visibility, in_defined, in_in_ksymtab);
}
void h_default_filter_matches(void)
{
  load_enums();
  int in_is_kernel_binary = nondet_int(), in_type = nondet_int(), in_binding = nondet_int(), in_visibility = nondet_int(),
      in_defined = nondet_int(), in_in_ksymtab = nondet_int();
  w_default_filter_matches(in_is_kernel_binary, in_type, in_binding, in_visibility, in_defined, in_in_ksymtab);
}
void h_load_symbol(void)
{
  load_enums();
  size_t in_index = nondet_ulong(); uint64_t in_st_size = nondet_ulong();
  int in_st_info = nondet_int(), in_st_other = nondet_int(), in_st_shndx = nondet_int(), in_is_kernel = nondet_int(),
      in_name_has_ksymtab_prefix = nondet_int(), in_name_has_crc_prefix = nondet_int();
  gh_created = 0; gh_ksym_inserted = 0; gh_crc_inserted = 0; gh_key_is_new = nondet_int();
  w_load_symbol(in_index, in_st_info, in_st_other, in_st_shndx, in_st_size, in_is_kernel,
                in_name_has_ksymtab_prefix, in_name_has_crc_prefix);
}
