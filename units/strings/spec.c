/* Bounded lemmas for U-strings (C41).  All strings up to CAP bytes, every byte value.
   Definitions (ISO C++ / the helpers' documentation):
   - p is a prefix of s  <=>  |p| <= |s| and s[0..|p|) == p;  suffix likewise at the end;
   - string_suffix(s, p, out) succeeds iff p is a *proper* prefix of s and then out == s[|p|..);
   - split_string returns, in order, the maximal runs of non-delimiter bytes of the input with
     leading white space removed, leaving out empty ones;
   - decl_names_equal is symmetric, and for well-formed qualified names (components separated by
     "::", no empty component) without anonymous internal names it is string equality.        */
#include "vstd_c.h"
#ifndef CAP
#define CAP 5
#endif
int w_decl_names_equal(const char *l, unsigned long ln, const char *r, unsigned long rn);
int w_begins_with(const char *s, unsigned long sn, const char *p, unsigned long pn);
int w_ends_with(const char *s, unsigned long sn, const char *p, unsigned long pn);
int w_suffix(const char *s, unsigned long sn, const char *p, unsigned long pn, char *out, unsigned long *outn);
int w_split(const char *s, unsigned long sn, const char *d, unsigned long dn, char *fields, unsigned long *lens, unsigned long *count);
unsigned long w_trim_leading(const char *s, unsigned long sn, const char *p, unsigned long pn, char *out);

static int is_prefix(const char *s, unsigned long sn, const char *p, unsigned long pn)
{
  if (pn > sn) return 0;
  for (unsigned long i = 0; i < pn; ++i) if (s[i] != p[i]) return 0;
  return 1;
}
static int is_suffix(const char *s, unsigned long sn, const char *p, unsigned long pn)
{
  if (pn > sn) return 0;
  for (unsigned long i = 0; i < pn; ++i) if (s[sn - pn + i] != p[i]) return 0;
  return 1;
}
static int same(const char *a, unsigned long an, const char *b, unsigned long bn)
{
  if (an != bn) return 0;
  for (unsigned long i = 0; i < an; ++i) if (a[i] != b[i]) return 0;
  return 1;
}
#define TWO_STRINGS \
  char in_a[CAP + 1], in_b[CAP + 1]; unsigned long in_an = nondet_ulong(), in_bn = nondet_ulong(); \
  __CPROVER_assume(in_an <= CAP && in_bn <= CAP)

void h_begins_with(void)
{
  TWO_STRINGS;
  int r = w_begins_with(in_a, in_an, in_b, in_bn);
  __CPROVER_assert((r != 0) == (is_prefix(in_a, in_an, in_b, in_bn) != 0), "string_begins_with(s, p) <=> p is a prefix of s");
  CANARY_h_begins_with;
}
void h_ends_with(void)
{
  TWO_STRINGS;
  int r = w_ends_with(in_a, in_an, in_b, in_bn);
  __CPROVER_assert((r != 0) == (is_suffix(in_a, in_an, in_b, in_bn) != 0), "string_ends_with(s, p) <=> p is a suffix of s");
  CANARY_h_ends_with;
}
void h_suffix(void)
{
  TWO_STRINGS;
  char out[CAP + 1]; unsigned long outn;
  int r = w_suffix(in_a, in_an, in_b, in_bn, out, &outn);
  __CPROVER_assert((r != 0) == (is_prefix(in_a, in_an, in_b, in_bn) && in_bn < in_an), "string_suffix succeeds iff p is a proper prefix of s");
  __CPROVER_assert(!r || same(out, outn, in_a + in_bn, in_an - in_bn), "string_suffix yields s without the prefix");
  __CPROVER_assert(r || (outn == 2 && out[0] == 'z' && out[1] == 'z'), "string_suffix leaves the output alone on failure");
  CANARY_h_suffix;
}
void h_trim_leading(void)
{
  TWO_STRINGS;
  char out[CAP + 1];
  unsigned long n = w_trim_leading(in_a, in_an, in_b, in_bn, out);
  /* the result is a suffix of the input that no longer starts with the pattern (termination is
     part of the obligation: unwinding assertions) */
  __CPROVER_assert(n <= in_an && same(out, n, in_a + (in_an - n), n), "trim_leading_string returns a suffix of its input");
  __CPROVER_assert(in_bn == 0 || !is_prefix(out, n, in_b, in_bn), "the result does not begin with the pattern any more");
  __CPROVER_assert(in_bn == 0 || (in_an - n) % in_bn == 0, "only whole repetitions of the pattern are removed");
  CANARY_h_trim_leading;
}
static int has_anon(const char *s, unsigned long n)
{ /* shortest internal prefix is "__anonymous_enum__" (18 bytes): look for "__anon" */
  for (unsigned long i = 0; i + 6 <= n; ++i)
    if (s[i] == '_' && s[i + 1] == '_' && s[i + 2] == 'a' && s[i + 3] == 'n' && s[i + 4] == 'o' && s[i + 5] == 'n') return 1;
  return 0;
}
static int wf_qname(const char *s, unsigned long n)
{ /* no empty component: no leading/trailing "::", no "::::" ; a lone ':' is an ordinary character */
  if (n >= 2 && s[0] == ':' && s[1] == ':') return 0;
  if (n >= 2 && s[n - 2] == ':' && s[n - 1] == ':') return 0;
  for (unsigned long i = 0; i + 3 <= n; ++i) if (s[i] == ':' && s[i + 1] == ':' && s[i + 2] == ':') return 0;
  return 1;
}
void h_decl_names_equal(void)
{
  TWO_STRINGS;
  int lr = w_decl_names_equal(in_a, in_an, in_b, in_bn);
  int rl = w_decl_names_equal(in_b, in_bn, in_a, in_an);
  __CPROVER_assert((lr != 0) == (rl != 0), "decl_names_equal is symmetric");
  __CPROVER_assert(!same(in_a, in_an, in_b, in_bn) || lr, "decl_names_equal is reflexive on equal strings");
  if (!has_anon(in_a, in_an) && !has_anon(in_b, in_bn) && wf_qname(in_a, in_an) && wf_qname(in_b, in_bn))
    __CPROVER_assert((lr != 0) == (same(in_a, in_an, in_b, in_bn) != 0),
                     "without anonymous parts decl_names_equal is string equality (well-formed qualified names)");
  CANARY_h_decl_names_equal;
}
static int is_delim(char c, const char *d, unsigned long dn)
{ for (unsigned long j = 0; j < dn; ++j) if (d[j] == c) return 1; return 0; }
static int is_ws(char c) {return c == ' ' || (c >= 9 && c <= 13);}
void h_split(void)
{
  TWO_STRINGS;
  char fields[4 * (CAP + 2)]; unsigned long lens[4], count;
  /* at most 4 fields fit the vector stand-in */
  w_split(in_a, in_an, in_b, in_bn, fields, lens, &count);
  /* reference splitter */
  unsigned long pos = 0, k = 0;
  while (pos <= in_an)
    {
      while (pos < in_an && is_ws(in_a[pos])) pos++;
      if (pos >= in_an) break;
      unsigned long e = pos;
      while (e < in_an && !is_delim(in_a[e], in_b, in_bn)) e++;
      if (e > pos)
        {
          __CPROVER_assert(k < count, "split_string returns every non-empty field");
          if (k < count)
            __CPROVER_assert(same(fields + k * (CAP + 1 + 0), lens[k], in_a + pos, e - pos), "field content and order");
          k++;
        }
      pos = e + 1;
    }
  __CPROVER_assert(k == count, "split_string returns nothing but the non-empty fields");
  CANARY_h_split;
}
