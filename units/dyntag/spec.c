/* C34 - lookup_data_tag_from_dynamic_segment (DT_NEEDED / DT_SONAME; run on every binary): for ANY program header,
   ANY dynamic section header (sh_link, sh_size), ANY entry size (0 for an invalid ELF class), ANY entries and ANY
   libelf failure, one iteration of the loop over program headers is memory-safe, fails no assertion, divides by
   nothing that can be zero, never builds a std::string from a null pointer and terminates.  Functionally, over a
   watched entry index w and the number of entries N the function computed: entry w is recorded exactly when it is
   read, carries the tag asked for and its string can be fetched; `found` is set exactly when something was recorded
   (or was set before); at most N entries are read.                                                                */
#include "vstd_c.h"
#include "ghost.h"
long nondet_long(void);
int gh_lc_phase; unsigned long gh_sh_size, gh_fsize, gh_getdyn_calls, gh_pushed, gh_w, gh_cur, gh_count; long gh_tag;
int gh_w_visited, gh_w_ok, gh_w_tag_matches, gh_w_str_ok, gh_w_pushed, gh_null_string, gh_count_set;
void h_dyn_region(void)
{
  gh_lc_phase = nondet_int(); gh_sh_size = nondet_ulong(); gh_fsize = nondet_ulong(); gh_w = nondet_ulong(); gh_w_tag_matches = nondet_int() != 0;
  /* a dynamic section of less than 2 GiB: its entry count fits the int index libelf addresses entries with */
  __CPROVER_assume(gh_sh_size < (1UL << 31) && gh_w < (1UL << 31));
  gh_getdyn_calls = 0; gh_pushed = 0; gh_w_visited = 0; gh_w_ok = 0; gh_w_str_ok = 0; gh_w_pushed = 0; gh_null_string = 0; gh_count_set = 0;
  int in_found_before = nondet_int() != 0; long in_tag = nondet_long();
  int found = w_dyn_region(in_tag, in_found_before);
#define POST(c) __CPROVER_assert(c, "postcondition of the program-header loop body: " #c)
  POST(!gh_null_string);
  POST((found != 0) == (in_found_before || gh_pushed > 0));
  POST(gh_fsize == 0 ==> gh_getdyn_calls == 0);
  POST(gh_count_set ==> gh_getdyn_calls <= gh_count);
  POST(!gh_count_set ==> (gh_getdyn_calls == 0 && gh_pushed == 0));
  POST((gh_w_visited && gh_w_ok && gh_w_tag_matches && gh_w_str_ok) ==> gh_w_pushed == 1);
  POST(gh_w_pushed >= 1 ==> (gh_w_pushed == 1 && gh_w_visited && gh_w_ok && gh_w_tag_matches && gh_w_str_ok));
  CANARY_h_dyn_region;
}
