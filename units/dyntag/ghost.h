#ifndef DYNTAG_GHOST_H
#define DYNTAG_GHOST_H
#ifdef __cplusplus
extern "C" {
#endif
extern int gh_lc_phase;
extern unsigned long gh_sh_size, gh_fsize;      /* size of the dynamic section, size of one entry (gelf_fsize: 0 for an invalid class) */
extern unsigned long gh_getdyn_calls, gh_pushed, gh_w;   /* gh_w: watched entry index */
extern int gh_w_visited, gh_w_ok, gh_w_tag_matches, gh_w_str_ok, gh_w_pushed;
extern unsigned long gh_cur;                    /* index of the latest gelf_getdyn call */
extern long gh_tag;                             /* the tag asked for */
extern int gh_null_string;                      /* a std::string was built from a null pointer */
extern unsigned long gh_count; extern int gh_count_set;   /* the number of entries the function computed */
int w_dyn_region(long data_tag, int found_before);
#ifdef __cplusplus
}
#endif
#endif
