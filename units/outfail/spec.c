/* Contracts for U-outfail (C36; C33 for the null-corpus paths of abilint).
   From the statement: the tool exits non-zero whenever the ABIXML it produces could not be written
   completely - for any write or close failure at any point of the output.  In ghost terms: exit
   status 0 implies that nothing was lost and nothing is left in a stream buffer (a failure of the
   implicit flush at exit would go unnoticed).                                                  */
#include "vstd_c.h"
#include "ghost.h"
int gh_lc_phase, g_pending, g_bad, g_failbit, g_lost, g_emitted, g_raw_emitted, g_noout, g_load_failed, g_written;
int w_abidw_tail(int noout, int do_log, int out_path_empty, int corp_null);
int w_abilint_main(void);
int w_abidw_kernel_tail(int noout, int do_log, int out_path_empty);
#define POST(c) __CPROVER_assert(c, "postcondition: " #c)
static void fresh(void) {g_pending = 0; g_bad = 0; g_failbit = 0; g_lost = 0; g_emitted = 0; g_raw_emitted = 0; g_noout = 0; g_load_failed = 0; g_written = 0;}

void h_abidw_tail(void)
{
  fresh();
  int in_noout = nondet_int(), in_log = nondet_int(), in_nopath = nondet_int(), in_null = nondet_int();
  int r = w_abidw_tail(in_noout, in_log, in_nopath, in_null);
  POST(r == 0 ==> (!g_lost && !g_pending));
  POST((r == 0 && !in_noout) ==> g_written);          /* success means the corpus was written */
  POST(in_noout ==> (r == 0 && !g_written));
  CANARY_h_abidw_tail;
}
void h_abidw_kernel_tail(void)
{
  fresh();
  int in_noout = nondet_int(), in_log = nondet_int(), in_nopath = nondet_int();
  int r = w_abidw_kernel_tail(in_noout, in_log, in_nopath);
  POST(r == 0 ==> (!g_lost && !g_pending));
  POST((r == 0 && !in_noout) ==> g_written);
  POST(in_noout ==> (r == 0 && !g_written));
  CANARY_h_abidw_kernel_tail;
}
void h_abilint_main(void)
{
  fresh();
  int r = w_abilint_main();
  POST(r == 0 ==> (!g_lost && !g_pending));           /* C36 */
  POST(g_load_failed ==> r != 0);                      /* an input that cannot be read is an error, not a crash (C33) */
  POST(r == 0 || r == 1);
  CANARY_h_abilint_main;
}
