/* Bounded lemmas for the XML escaping functions (C04), all inputs of at most INLEN bytes:
   - the escaped text contains none of < > ' " and every & in it starts a predefined entity;
   - unescape_xml_string(escape_xml_string(s)) == s (nothing is lost or invented);
   - the escaped comment text contains no '-'.                                              */
#include "vstd_c.h"
#ifndef INLEN
#define INLEN 4
#endif
#define CAP 24
unsigned long w_escape(const char *s, unsigned long n, char *o);
unsigned long w_unescape(const char *s, unsigned long n, char *o);
unsigned long w_escape_comment(const char *s, unsigned long n, char *o);
static int ent_at(const char *e, unsigned long n, unsigned long i)
{
#define M(k, c) (i + (k) < n && e[i + (k)] == (c))
  return (M(1, 'l') && M(2, 't') && M(3, ';')) || (M(1, 'g') && M(2, 't') && M(3, ';'))
    || (M(1, 'a') && M(2, 'm') && M(3, 'p') && M(4, ';'))
    || (M(1, 'a') && M(2, 'p') && M(3, 'o') && M(4, 's') && M(5, ';'))
    || (M(1, 'q') && M(2, 'u') && M(3, 'o') && M(4, 't') && M(5, ';'));
}
void h_roundtrip(void)
{
  char in_s[INLEN + 1], e[CAP + 1], u[CAP + 1]; unsigned long in_n = nondet_ulong();
  __CPROVER_assume(in_n <= INLEN);
  unsigned long en = w_escape(in_s, in_n, e);
  for (unsigned long i = 0; i < en; ++i)
    {
      __CPROVER_assert(e[i] != '<' && e[i] != '>' && e[i] != '\'' && e[i] != '"', "escaped text has no raw < > ' \"");
      __CPROVER_assert(e[i] != '&' || ent_at(e, en, i), "every & of the escaped text starts a predefined entity");
    }
  unsigned long un = w_unescape(e, en, u);
  __CPROVER_assert(un == in_n, "unescape(escape(s)) has the length of s");
  for (unsigned long i = 0; i < in_n && i < un; ++i)
    __CPROVER_assert(u[i] == in_s[i], "unescape(escape(s)) == s");
  CANARY_h_roundtrip;
}
void h_comment(void)
{
  char in_s[INLEN + 1], e[CAP + 1]; unsigned long in_n = nondet_ulong();
  __CPROVER_assume(in_n <= INLEN);
  unsigned long en = w_escape_comment(in_s, in_n, e);
  for (unsigned long i = 0; i < en; ++i)
    __CPROVER_assert(e[i] != '-', "escaped comment text has no '-'");
  __CPROVER_assert(en >= in_n, "nothing is dropped");
  CANARY_h_comment;
}
