// Native replay for U-escape-rt: the verifier's counterexample names only the input length, so the
// replay searches: every string of <= 4 characters over the alphabet below is run through the
// natively compiled extracted functions and the three postconditions are evaluated.
#include <cstdio>
#include <cstring>
#include "gen.cpp"
static bool ent_at(const std::string& e, unsigned long i)
{
  static const char* ents[5] = {"&lt;", "&gt;", "&amp;", "&apos;", "&quot;"};
  for (int k = 0; k < 5; ++k)
    {
      unsigned long L = strlen(ents[k]); bool ok = i + L <= e.n_;
      for (unsigned long j = 0; ok && j < L; ++j) ok = e.b_[i + j] == ents[k][j];
      if (ok) return true;
    }
  return false;
}
int main(int argc, char** argv)
{
  const char* harness = argc > 1 ? argv[1] : "";
  static const char alpha[] = {'<', '>', '&', '\'', '"', '-', 'a', ';', 'l', 't', '#', 0};
  const unsigned A = sizeof(alpha);
  for (unsigned n = 0; n <= 4; ++n)
    {
      unsigned long combos = 1; for (unsigned k = 0; k < n; ++k) combos *= A;
      for (unsigned long c = 0; c < combos; ++c)
	{
	  char s[5]; unsigned long x = c;
	  for (unsigned k = 0; k < n; ++k, x /= A) s[k] = alpha[x % A];
	  std::string in = mk(s, n);
	  if (!strcmp(harness, "h_comment"))
	    {
	      std::string e = xml::escape_xml_comment(in);
	      for (unsigned long i = 0; i < e.n_; ++i)
		if (e.b_[i] == '-') {printf("REPLAY-CONFIRMED: escape_xml_comment(\"%.*s\") = \"%.*s\" contains '-'\n", (int) n, s, (int) e.n_, e.b_); return 1;}
	      continue;
	    }
	  std::string e = xml::escape_xml_string(in);
	  for (unsigned long i = 0; i < e.n_; ++i)
	    {
	      char ch = e.b_[i];
	      if (ch == '<' || ch == '>' || ch == '\'' || ch == '"' || (ch == '&' && !ent_at(e, i)))
		{printf("REPLAY-CONFIRMED: escape_xml_string(\"%.*s\") = \"%.*s\" has a raw metacharacter at %lu\n", (int) n, s, (int) e.n_, e.b_, i); return 1;}
	    }
	  std::string u = xml::unescape_xml_string(e);
	  bool same = u.n_ == in.n_;
	  for (unsigned long i = 0; same && i < u.n_; ++i) same = u.b_[i] == in.b_[i];
	  if (!same) {printf("REPLAY-CONFIRMED: unescape(escape(\"%.*s\")) = \"%.*s\"\n", (int) n, s, (int) u.n_, u.b_); return 1;}
	}
    }
  printf("REPLAY: no failing string of length <= 4 over the replay alphabet\n");
  return 0;
}
