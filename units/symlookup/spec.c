/* Contracts for U-symlookup (lookup_symbol_from_symtab: the lookup abisym falls back to when a binary has no
   hash table, e.g. a relocatable object).
   C34: memory safety, no abort, no division by zero and termination are CBMC obligations on the real function for an
   arbitrary symbol-table header (any sh_entsize, 0 included; sh_size < 2 GiB), arbitrary symbols and arbitrary libelf
   failures - no well-formedness precondition.
   C37 (the lookup agrees with the table), over an arbitrary watched symbol index w and the number of symbols N the
   function computed from the header: a symbol is reported iff its name equals the query and its type and binding are
   ones the library can represent; when libelf does not fail every index below N is examined; nothing else is
   reported; the walk makes at most N steps.                                                                  */
#include "vstd_c.h"
#include "hash_ghost.h"
typedef unsigned long size_t;
int gh_lc_phase; void *gh_ht_buf; unsigned long gh_ht_size, gh_hash, gh_w, gh_v, gh_calls, gh_w_visit_no, gh_cur_idx;
int gh_w_supported;
int gh_w_matches, gh_w_visited, gh_w_getsym_ok, gh_w_name_ok, gh_v_visited, gh_env_failed, gh_elf_class;
unsigned long gh_first; int gh_first_set;
unsigned long gh_exit_i; int gh_exit_break;
unsigned long gh_created, gh_pushed, gh_w_created, gh_symtab_size, gh_symtab_entsize, gh_ht_index;
int w_symtab_lookup(size_t sym_tab_index, int demangle);
void h_symtab_lookup(void)
{
  gh_w = nondet_ulong(); gh_v = nondet_ulong(); gh_w_matches = nondet_int();
  __CPROVER_assume(gh_w < (1UL << 31));                      /* symbol indexes libelf can address (int) */
  gh_symtab_size = nondet_ulong(); gh_symtab_entsize = nondet_ulong(); gh_elf_class = nondet_int();
  /* a symbol table section of less than 2 GiB: its symbol count then fits the int index libelf addresses symbols
     with (beyond that the index passed to gelf_getsym wraps - implementation-defined conversion, not modelled) */
  __CPROVER_assume(gh_symtab_size < (1UL << 31));
  gh_lc_phase = nondet_int(); gh_ht_index = nondet_ulong(); gh_ht_buf = 0; gh_ht_size = 0;
  gh_calls = 0; gh_w_visited = 0; gh_w_getsym_ok = 0; gh_w_name_ok = 0; gh_v_visited = 0;
  gh_created = 0; gh_pushed = 0; gh_w_created = 0; gh_env_failed = 0; gh_first_set = 0; gh_w_supported = 0;
  size_t in_sym_tab_index = nondet_ulong(); int in_demangle = nondet_int();
  __CPROVER_assume(in_sym_tab_index != gh_ht_index);          /* the section asked for is the symbol table */
  int ret = w_symtab_lookup(in_sym_tab_index, in_demangle);
#define POST(c) __CPROVER_assert(c, "postcondition of lookup_symbol_from_symtab: " #c)
  POST((ret != 0) == (gh_created > 0));
  POST(gh_pushed == gh_created);
  POST((gh_w_visited && gh_w_getsym_ok && gh_w_name_ok && gh_w_matches && gh_w_supported) ==> (gh_w_created >= 1 && ret != 0));
  POST(gh_w_created >= 1 ==> (gh_w_matches && gh_w_visited));   /* (an unsupported type or binding reaching create would fail the ABG_ASSERT_NOT_REACHED obligations of stt/stb) */
  /* a header without an entry size, or a failing libelf before the walk, means "not found", never a crash */
  POST(gh_symtab_entsize == 0 ==> (ret == 0 && gh_calls == 0));
  POST(!gh_first_set ==> (ret == 0 && gh_calls == 0));
  /* every symbol is examined when libelf does not fail; the walk makes at most N steps */
  POST((gh_first_set && !gh_env_failed && gh_w < gh_first) ==> gh_w_visited);
  POST(gh_first_set ==> gh_calls <= gh_first);
  CANARY_h_symtab_lookup;
}
