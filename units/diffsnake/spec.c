/* C38 - local contracts of the snake extension, for sequences of ANY length (1 <= n, m <= 2^28; the
   d-path vector is sized with `unsigned` arithmetic, 4(n+m)+3 must not wrap) and ANY predicate.

   end_of_fr_d_path_in_k(k, d, A, B, v, snak), with -d <= k <= d, 0 <= d <= (n+m)/2+1 (what
   compute_middle_snake passes) and the point (xm, ym) it starts the diagonal from not left of / above
   (-1,-1) [this is the invariant x >= -1, y >= -1 of the entries of v, re-established by F5]:
     F1  the predicate is applied only to elements (i, j) of the sequences with i - j == k;
     F2  v[k] = x_end >= xm and no other entry of v changes;
     F3  every point (t, t-k), xm < t <= x_end, was compared and matched (snake = matches only), and
         if the snake was extended it stays inside the graph;
     F4  maximality: x_end is the last column, or y_end the last row, or the next point was compared
         and did not match;
     F5  x_end >= -1 and y_end >= -1;
     F6  the result is true exactly when (x_end, y_end) is not right of / below the graph, and then
         snak = (begin, intermediate, diagonal_start, end) = (the (D-1)-path end, (xm, ym),
         (xm+1, ym+1) or empty, (x_end, y_end)), forward.
   end_of_frr_d_path_in_k_plus_delta: the mirror image (R1..R6) on diagonal k + delta.
   Loops are closed by the loop rule (invariant FW_INV / RV_INV in gen.cpp.in), variants included. */
#include "vstd_c.h"
#include "ghost.h"
#define BIG (1 << 29)
#define BIGN (1 << 28)
int gh_lc_phase;
int gh_n, gh_m, gh_diag, gh_w, gh_w_asked, gh_w_ans, gh_bad_call, gh_calls, gh_false_seen, gh_last_a, gh_last_b, gh_last_ans;
int out_ret, out_vk, out_other_kept;
int out_begin_x, out_begin_y, out_begin_empty, out_mid_x, out_mid_y, out_mid_empty;
int out_diag_x, out_diag_y, out_diag_empty, out_end_x, out_end_y, out_end_empty, out_forward, out_snake_written;

int gh_eq_call(int a, int b)
{
  if (!(0 <= a && a < gh_n && 0 <= b && b < gh_m && a - b == gh_diag)) gh_bad_call = 1;
  int ans = nondet_int() != 0;
  if (a == gh_w) { gh_w_asked = 1; gh_w_ans = ans; }
  gh_last_a = a; gh_last_b = b; gh_last_ans = ans;
  if (gh_calls < BIG) gh_calls = gh_calls + 1;
  if (!ans) gh_false_seen = 1;
  return ans;
}

static int in_k, in_d, in_vkm1, in_vkp1;
static void any_call(void)
{
  gh_lc_phase = nondet_int();
  gh_n = nondet_int(); gh_m = nondet_int();
  __CPROVER_assume(1 <= gh_n && gh_n <= BIGN && 1 <= gh_m && gh_m <= BIGN);
  in_k = nondet_int(); in_d = nondet_int();
  __CPROVER_assume(0 <= in_d && in_d <= (gh_n + gh_m) / 2 + 1 && -in_d <= in_k && in_k <= in_d);
  in_vkm1 = nondet_int(); in_vkp1 = nondet_int();
  __CPROVER_assume(-BIG <= in_vkm1 && in_vkm1 <= BIG && -BIG <= in_vkp1 && in_vkp1 <= BIG);
  gh_w = nondet_int();
  gh_w_asked = 0; gh_w_ans = 0; gh_bad_call = 0; gh_calls = 0; gh_false_seen = 0; gh_last_a = 0; gh_last_b = 0; gh_last_ans = 0;
}

void h_end_of_fr(void)
{
  any_call();
  int k = in_k, d = in_d;
  int down = (k == -d) || (k != d && in_vkm1 < in_vkp1);
  int bx = down ? in_vkp1 : in_vkm1;
  int by = down ? in_vkp1 - (k + 1) : in_vkm1 - (k - 1);
  int xm = down ? in_vkp1 : in_vkm1 + 1;
  int ym = xm - k;
  __CPROVER_assume(xm >= -1 && ym >= -1);
  gh_diag = k;
  w_end_of_fr(k, d, in_vkm1, in_vkp1, nondet_int());
  int xe = out_vk, ye = out_vk - k;
  __CPROVER_assert(!gh_bad_call, "F1 predicate applied only to elements of the sequences on diagonal k");
  __CPROVER_assert(xe >= xm, "F2 v[k] is at or beyond the start of the diagonal");
  __CPROVER_assert(out_other_kept, "F2 no other entry of v changes");
  __CPROVER_assert(!(xm < gh_w && gh_w <= xe) || (gh_w_asked && gh_w_ans), "F3 every point of the snake was compared and matched");
  __CPROVER_assert(xe == xm || (xe <= gh_n - 1 && ye <= gh_m - 1), "F3 an extended snake stays inside the graph");
  __CPROVER_assert(xe >= gh_n - 1 || ye >= gh_m - 1 || (gh_calls > 0 && gh_last_a == xe + 1 && gh_last_b == ye + 1 && !gh_last_ans),
		   "F4 the snake is maximal");
  __CPROVER_assert(xe >= -1 && ye >= -1, "F5 x >= -1 and y >= -1 re-established for v[k]");
  __CPROVER_assert((out_ret != 0) == (xe < gh_n && ye < gh_m), "F6 result tells whether the end point is inside the graph");
  if (out_ret)
    {
      __CPROVER_assert(!out_begin_empty && out_begin_x == bx && out_begin_y == by, "F6 snake begin is the end of the (D-1)-path");
      __CPROVER_assert(!out_mid_empty && out_mid_x == xm && out_mid_y == ym, "F6 snake intermediate point");
      __CPROVER_assert(xe == xm ? out_diag_empty : (!out_diag_empty && out_diag_x == xm + 1 && out_diag_y == ym + 1), "F6 snake diagonal start");
      __CPROVER_assert(!out_end_empty && out_end_x == xe && out_end_y == ye, "F6 snake end");
      __CPROVER_assert(out_forward, "F6 snake is forward");
    }
  CANARY_h_end_of_fr;
}

void h_end_of_frr(void)
{
  any_call();
  int k = in_k, d = in_d;
  int delta = gh_n - gh_m, kd = k + delta;
  int left = (k == -d) || (k != d && in_vkp1 <= in_vkm1);
  int bx = left ? in_vkp1 : in_vkm1;
  int by = left ? in_vkp1 - (kd + 1) : in_vkm1 - (kd - 1);
  int xm = left ? in_vkp1 - 1 : in_vkm1;
  int ym = left ? by : by - 1;
  __CPROVER_assume(xm <= gh_n - 1 && ym <= gh_m - 1);
  gh_diag = kd;
  w_end_of_frr(k, d, in_vkm1, in_vkp1, nondet_int());
  int xe = out_vk, ye = out_vk - kd;
  __CPROVER_assert(!gh_bad_call, "R1 predicate applied only to elements of the sequences on diagonal k + delta");
  __CPROVER_assert(xe <= xm, "R2 v[k + delta] is at or before the start of the diagonal");
  __CPROVER_assert(out_other_kept, "R2 no other entry of v changes");
  __CPROVER_assert(!(xe < gh_w && gh_w <= xm) || (gh_w_asked && gh_w_ans), "R3 every point of the snake was compared and matched");
  __CPROVER_assert(xe == xm || (xe >= -1 && ye >= -1), "R3 an extended snake stays inside the graph");
  __CPROVER_assert(xe < 0 || ye < 0 || (gh_calls > 0 && gh_last_a == xe && gh_last_b == ye && !gh_last_ans), "R4 the snake is maximal");
  __CPROVER_assert(xe <= gh_n - 1 && ye <= gh_m - 1, "R5 x <= n-1 and y <= m-1 re-established for v[k + delta]");
  __CPROVER_assert((out_ret != 0) == (xe >= -1 && ye >= -1), "R6 result tells whether the end point is inside the graph");
  if (out_ret)
    {
      __CPROVER_assert(!out_begin_empty && out_begin_x == bx && out_begin_y == by, "R6 snake begin is the end of the (D-1)-path");
      __CPROVER_assert(!out_mid_empty && out_mid_x == xm && out_mid_y == ym, "R6 snake intermediate point");
      __CPROVER_assert(xe == xm ? out_diag_empty : (!out_diag_empty && out_diag_x == xm && out_diag_y == ym), "R6 snake diagonal start");
      __CPROVER_assert(!out_end_empty && out_end_x == xe && out_end_y == ye, "R6 snake end");
      __CPROVER_assert(!out_forward, "R6 snake is reverse");
    }
  CANARY_h_end_of_frr;
}

/* the arithmetic that links F5/R5 of one step to the precondition of the next one: an entry that
   satisfies x >= -1, y >= -1 on its diagonal gives a start point that does, whichever neighbour is used */
void h_step_lemma(void)
{
  int k = nondet_int(), v = nondet_int(), n = nondet_int(), m = nondet_int();
  __CPROVER_assume(-BIG <= k && k <= BIG && -BIG <= v && v <= BIG && 1 <= n && n <= BIGN && 1 <= m && m <= BIGN);
  /* forward, from diagonal k+1 (down): x = v */
  if (v >= -1 && v - (k + 1) >= -1) __CPROVER_assert(v >= -1 && v - k >= -1, "forward: down from k+1 keeps x >= -1, y >= -1");
  /* forward, from diagonal k-1 (right): x = v + 1 */
  if (v >= -1 && v - (k - 1) >= -1) __CPROVER_assert(v + 1 >= -1 && v + 1 - k >= -1, "forward: right from k-1 keeps x >= -1, y >= -1");
  /* reverse, from diagonal k+1 (left): x = v - 1, y unchanged */
  if (v <= n - 1 && v - (k + 1) <= m - 1) __CPROVER_assert(v - 1 <= n - 1 && v - (k + 1) <= m - 1, "reverse: left from k+1 keeps x <= n-1, y <= m-1");
  /* reverse, from diagonal k-1 (up): x = v, y = v - (k-1) - 1 */
  if (v <= n - 1 && v - (k - 1) <= m - 1) __CPROVER_assert(v <= n - 1 && v - (k - 1) - 1 <= m - 1, "reverse: up from k-1 keeps x <= n-1, y <= m-1");
  CANARY_h_step_lemma;
}
