// Native replay for U-diffsnake.  The verifier's counterexamples live in sequences of up to 2^28 elements and
// in per-call predicate answers that are not part of the reported inputs, so the driver does not re-run them
// literally: it runs the REAL templates of include/abg-diff-utils.h (index iterator, scripted predicate) over
// every small configuration - n, m <= 4, every admissible (k, d), neighbour entries in [-2, 5], every answer
// pattern of the first 6 predicate calls - and evaluates the same contract (F1..F6 / R1..R6 of spec.c).  The first
// failing configuration is the failing input; libstdc++ assertions are on, so an out-of-range d_path_vec index
// aborts (= confirmed).
#define _GLIBCXX_ASSERTIONS 1
#include <cstdio>
#include <cstdlib>
#include <string>
#include <vector>
#include "abg-diff-utils.cc"
using namespace abigail::diff_utils;

static int g_n, g_m, g_diag, g_bad, g_calls, g_last_a, g_last_b, g_last_ans; static unsigned g_script;
static bool g_matched[64];
struct idx_iter { int p_; int operator[](int i) const {return p_ + i;} };
static int operator-(const idx_iter& a, const idx_iter& b) {return a.p_ - b.p_;}
struct scripted_eq
{
  bool operator()(int a, int b) const
  {
    if (!(0 <= a && a < g_n && 0 <= b && b < g_m && a - b == g_diag)) g_bad = 1;
    bool ans = g_calls < 6 ? ((g_script >> g_calls) & 1) : false;
    g_calls++; g_last_a = a; g_last_b = b; g_last_ans = ans;
    if (0 <= a && a < 64) g_matched[a] = ans;
    return ans;
  }
};
#define EXPECT(c, what) do { if (!(c)) { printf("REPLAY-CONFIRMED: %s: %s\n  n=%d m=%d k=%d d=%d v[k-1]=%d v[k+1]=%d answers=0x%x -> ret=%d v[k]=%d\n", \
  fwd ? "end_of_fr_d_path_in_k" : "end_of_frr_d_path_in_k_plus_delta", what, g_n, g_m, k, d, vkm1, vkp1, g_script, (int) ret, xe); return true; } } while (0)
static bool violates(bool fwd, int k, int d, int vkm1, int vkp1)
{
  idx_iter a0 = {0}, a1 = {g_n}, b0 = {0}, b1 = {g_m};
  d_path_vec v(g_n, g_m);
  int delta = g_n - g_m, kd = fwd ? k : k + delta;
  if (k != -d) v[kd - 1] = vkm1;
  if (k == -d || k != d) v[kd + 1] = vkp1;
  int xm, ym, bx, by;
  if (fwd)
    {
      bool down = (k == -d) || (k != d && vkm1 < vkp1);
      bx = down ? vkp1 : vkm1; by = down ? vkp1 - (k + 1) : vkm1 - (k - 1);
      xm = down ? vkp1 : vkm1 + 1; ym = xm - k;
      if (!(xm >= -1 && ym >= -1)) return false;            // outside the precondition
    }
  else
    {
      bool left = (k == -d) || (k != d && vkp1 <= vkm1);
      bx = left ? vkp1 : vkm1; by = left ? vkp1 - (kd + 1) : vkm1 - (kd - 1);
      xm = left ? vkp1 - 1 : vkm1; ym = left ? by : by - 1;
      if (!(xm <= g_n - 1 && ym <= g_m - 1)) return false;
    }
  g_diag = kd; g_bad = 0; g_calls = 0; for (int i = 0; i < 64; ++i) g_matched[i] = false;
  snake s;
  bool ret = fwd ? end_of_fr_d_path_in_k<idx_iter, scripted_eq>(k, d, a0, a1, b0, b1, v, s)
		 : end_of_frr_d_path_in_k_plus_delta<idx_iter, scripted_eq>(k, d, a0, a1, b0, b1, v, s);
  int xe = v[kd], ye = xe - kd;
  EXPECT(!g_bad, "predicate applied outside the sequences or off the diagonal");
  if (fwd)
    {
      EXPECT(xe >= xm, "v[k] before the start of the diagonal");
      for (int t = xm + 1; t <= xe; ++t) EXPECT(t >= 0 && t < 64 && g_matched[t], "a point of the snake was not compared or did not match");
      EXPECT(xe == xm || (xe <= g_n - 1 && ye <= g_m - 1), "an extended snake leaves the graph");
      EXPECT(xe >= g_n - 1 || ye >= g_m - 1 || (g_calls > 0 && g_last_a == xe + 1 && g_last_b == ye + 1 && !g_last_ans), "the snake is not maximal");
      EXPECT(xe >= -1 && ye >= -1, "x >= -1, y >= -1 not re-established");
      EXPECT(ret == (xe < g_n && ye < g_m), "wrong result flag");
      if (ret)
	EXPECT(s.begin().x() == bx && s.begin().y() == by && s.intermediate().x() == xm && s.intermediate().y() == ym
	       && (xe == xm ? s.diagonal_start().is_empty() : (s.diagonal_start().x() == xm + 1 && s.diagonal_start().y() == ym + 1))
	       && s.end().x() == xe && s.end().y() == ye && s.is_forward(), "wrong snake points");
    }
  else
    {
      EXPECT(xe <= xm, "v[k + delta] after the start of the diagonal");
      for (int t = xe + 1; t <= xm; ++t) EXPECT(t >= 0 && t < 64 && g_matched[t], "a point of the snake was not compared or did not match");
      EXPECT(xe == xm || (xe >= -1 && ye >= -1), "an extended snake leaves the graph");
      EXPECT(xe < 0 || ye < 0 || (g_calls > 0 && g_last_a == xe && g_last_b == ye && !g_last_ans), "the snake is not maximal");
      EXPECT(xe <= g_n - 1 && ye <= g_m - 1, "x <= n-1, y <= m-1 not re-established");
      EXPECT(ret == (xe >= -1 && ye >= -1), "wrong result flag");
      if (ret)
	EXPECT(s.begin().x() == bx && s.begin().y() == by && s.intermediate().x() == xm && s.intermediate().y() == ym
	       && (xe == xm ? s.diagonal_start().is_empty() : (s.diagonal_start().x() == xm && s.diagonal_start().y() == ym))
	       && s.end().x() == xe && s.end().y() == ye && !s.is_forward(), "wrong snake points");
    }
  return false;
}
int main(int argc, char** argv)
{
  std::string h = argc > 1 ? argv[1] : "";
  bool do_fwd = h != "h_end_of_frr", do_rev = h != "h_end_of_fr";
  printf("searching the small configurations of the real snake-following functions (n, m <= 4)\n"); fflush(stdout);
  for (g_n = 1; g_n <= 4; ++g_n) for (g_m = 1; g_m <= 4; ++g_m)
    for (int d = 0; d <= (g_n + g_m) / 2 + 1; ++d) for (int k = -d; k <= d; ++k)
      for (int vkm1 = -2; vkm1 <= 5; ++vkm1) for (int vkp1 = -2; vkp1 <= 5; ++vkp1)
	for (g_script = 0; g_script < 64; ++g_script)
	  {
	    if (do_fwd && violates(true, k, d, vkm1, vkp1)) return 1;
	    if (do_rev && violates(false, k, d, vkm1, vkp1)) return 1;
	  }
  printf("REPLAY: no small configuration makes the real code violate the contract\n");
  return 0;
}
