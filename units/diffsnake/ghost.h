/* ghost interface of U-diffsnake: sequences of ANY length.  The iterator type is an index (no
   memory), element i is the integer i, and the caller-supplied predicate is gh_eq_call: an
   arbitrary answer per call, with the call on the watched index recorded.                      */
#ifndef DIFFSNAKE_GHOST_H
#define DIFFSNAKE_GHOST_H
#ifdef __cplusplus
extern "C" {
#endif
extern int gh_lc_phase;
extern int gh_n, gh_m, gh_diag;       /* |A|, |B|, the diagonal x - y the snake must stay on */
extern int gh_w;                      /* watched abscissa */
extern int gh_w_asked, gh_w_ans;      /* the predicate was applied to (gh_w, gh_w - gh_diag) and answered gh_w_ans */
extern int gh_bad_call;               /* the predicate was applied outside the sequences or off the diagonal */
extern int gh_calls, gh_false_seen;   /* calls so far; a call answered false */
extern int gh_last_a, gh_last_b, gh_last_ans;
int gh_eq_call(int a, int b);
/* outputs of the wrappers */
extern int out_ret, out_vk, out_other_kept;
extern int out_begin_x, out_begin_y, out_begin_empty, out_mid_x, out_mid_y, out_mid_empty;
extern int out_diag_x, out_diag_y, out_diag_empty, out_end_x, out_end_y, out_end_empty, out_forward, out_snake_written;
void w_end_of_fr(int k, int d, int vkm1, int vkp1, int other);
void w_end_of_frr(int k, int d, int vkm1, int vkp1, int other);
#ifdef __cplusplus
}
#endif
#endif
