/* Contracts for U-insrange (C24, second sentence; eval_boundary also serves C25).
   From the statement: a has_data_member_inserted_* constraint never hides a change that removes a
   data member, shrinks the type, or inserts a member outside all given ranges.
   "inside range i" (documentation of has_data_member_inserted_at/between): both boundaries evaluate
   and  begin <= offset <= end;  the pair (end, end) means "after the last data member".        */
#include "vstd_c.h"
#include "ghost.h"
int gh_lc_phase, gh_bkind, gh_fname; unsigned long gh_bint, gh_nargs, gh_nmembers;
#define END (~0UL)
int w_klass_clause(unsigned long nranges, unsigned long ndeleted, unsigned long ninserted,
		   unsigned long size1, unsigned long size2, unsigned long last_off, unsigned long o0, unsigned long o1,
		   int bok0, unsigned long b0, int eok0, unsigned long e0, int bok1, unsigned long b1, int eok1, unsigned long e1);
int w_eval_boundary(unsigned long *out);
int w_is_end(unsigned long v);
#define POST(c) __CPROVER_assert(c, "postcondition: " #c)
static int inside(unsigned long o, unsigned long last, int bok, unsigned long b, int eok, unsigned long e)
{
  if (!bok || !eok) return 0;
  if (b == END && e == END) return o > last;
  return b <= e && b <= o && o <= e;
}
void h_klass_clause(void)
{
  unsigned long in_nr = nondet_ulong(), in_nd = nondet_ulong(), in_ni = nondet_ulong(), in_s1 = nondet_ulong(), in_s2 = nondet_ulong(),
    in_last = nondet_ulong(), in_o0 = nondet_ulong(), in_o1 = nondet_ulong(), in_b0 = nondet_ulong(), in_e0 = nondet_ulong(),
    in_b1 = nondet_ulong(), in_e1 = nondet_ulong();
  int in_bok0 = nondet_int() != 0, in_eok0 = nondet_int() != 0, in_bok1 = nondet_int() != 0, in_eok1 = nondet_int() != 0;
  __CPROVER_assume(in_nr <= 2 && in_nd <= 2 && in_ni <= 2);
  /* offsets of real data members are far below the "end" marker */
  __CPROVER_assume(in_o0 < (1UL << 62) && in_o1 < (1UL << 62) && in_last < (1UL << 62));
  int r = w_klass_clause(in_nr, in_nd, in_ni, in_s1, in_s2, in_last, in_o0, in_o1, in_bok0, in_b0, in_eok0, in_e0, in_bok1, in_b1, in_eok1, in_e1);
  int in0 = (in_nr >= 1 && inside(in_o0, in_last, in_bok0, in_b0, in_eok0, in_e0)) || (in_nr >= 2 && inside(in_o0, in_last, in_bok1, in_b1, in_eok1, in_e1));
  int in1 = (in_nr >= 1 && inside(in_o1, in_last, in_bok0, in_b0, in_eok0, in_e0)) || (in_nr >= 2 && inside(in_o1, in_last, in_bok1, in_b1, in_eok1, in_e1));
  if (in_nr >= 1)
    {
      POST(in_nd > 0 ==> !r);                          /* a removed data member is never hidden */
      POST(in_s1 > in_s2 ==> !r);                      /* a shrunk type is never hidden */
      POST((in_ni >= 1 && !in0) ==> !r);               /* a member inserted outside all ranges is never hidden */
      POST((in_ni >= 2 && !in1) ==> !r);
    }
  POST(in_nr == 0 ==> r);                              /* without such a constraint the clause does not object */
  CANARY_h_klass_clause;
}
void h_eval_boundary(void)
{
  gh_bkind = nondet_int(); gh_bint = nondet_ulong(); gh_fname = nondet_int(); gh_nargs = nondet_ulong(); gh_nmembers = nondet_ulong();
  __CPROVER_assume(gh_bkind >= 0 && gh_bkind <= 2 && gh_fname >= 1 && gh_fname <= 3 && gh_nmembers <= (1UL << 20));
  gh_lc_phase = nondet_int();
  unsigned long in_v = nondet_ulong(), v = in_v;
  int r = w_eval_boundary(&v);
  POST(gh_bkind == 0 ==> (r && v == gh_bint));          /* an integer boundary evaluates to the integer */
  POST(gh_bkind == 2 ==> !r);
  POST((gh_bkind == 1 && (gh_nargs != 1 || gh_fname == 3)) ==> !r);   /* offset_of/offset_after take exactly one argument */
  POST(!r ==> (gh_lc_phase == 0 || gh_bkind != 0));
  CANARY_h_eval_boundary;
}
void h_is_end(void)
{
  unsigned long in_v = nondet_ulong();
  POST((w_is_end(in_v) != 0) == (in_v == END));
  CANARY_h_is_end;
}
