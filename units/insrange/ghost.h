#ifndef INSRANGE_GHOST_H
#define INSRANGE_GHOST_H
#ifdef __cplusplus
extern "C" {
#endif
extern int gh_lc_phase;
/* eval_boundary */
extern int gh_bkind;              /* 0 integer boundary, 1 function-call boundary, 2 neither */
extern unsigned long gh_bint;     /* value of an integer boundary */
extern int gh_fname;              /* 1 "offset_of", 2 "offset_after", 3 anything else */
extern unsigned long gh_nargs;    /* number of arguments of the call expression */
extern unsigned long gh_nmembers; /* data members of the context class */
#ifdef __cplusplus
}
#endif
#endif
