/* Contract for symbol_sort (C14): the order in which a symtab lists its symbols is the lexicographic
   order of their id strings (name@version) for all symbols - a strict weak order whose only ties are
   equal ids, so that the sorted sequence does not depend on the order in which the symbols were read. */
#include "vstd_c.h"
long nondet_long(void);
int w_symbol_sort(long a, long b);
void h_symbol_sort(void)
{
  long in_a = nondet_long(), in_b = nondet_long(), in_c = nondet_long();
  int ab = w_symbol_sort(in_a, in_b), ba = w_symbol_sort(in_b, in_a), bc = w_symbol_sort(in_b, in_c), ac = w_symbol_sort(in_a, in_c);
  __CPROVER_assert((ab != 0) == (in_a < in_b), "postcondition: symbol_sort(l, r) <=> id(l) < id(r)");
  __CPROVER_assert(!(ab && ba), "postcondition: asymmetric");
  __CPROVER_assert((ab && bc) ==> ac, "postcondition: transitive");
  __CPROVER_assert((!ab && !ba) ==> in_a == in_b, "postcondition: ties only between equal ids");
  CANARY_h_symbol_sort;
}
