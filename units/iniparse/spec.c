/* Contracts for the INI parser (C25), input streams of ANY length and content.  For every member
   function of read_context with a loop, and for read_sections:
   - no ABG_ASSERT fails, std::abort() is not reached, no null pointer is dereferenced, the put-back
     buffer is never popped empty (obligations generated inside the real text);
   - every loop terminates: the measure 8*(bytes left) + 4*|put-back buffer| + (error bits still clear)
     strictly decreases;
   - the function honours the contract its callers rely on: the stream is left in a reachable state,
     exactly as it was or with progress made; a non-nil / non-empty / true result implies progress;
   - read_property: a simple property handed to the section readers always carries a value object
     (the readers of src/abg-suppression.cc call get_value()->as_string() on each one they find). */
#include "vstd_c.h"
#include "ghost.h"
int gh_lc_phase, gh_cur, gh_eofbit, gh_failbit, gh_e_cur, gh_e_eof, gh_e_fail, gh_e_good, gh_p_effect_ok, gh_p_weak_ok, gh_p_progress, gh_p_result;
unsigned long gh_left, gh_bufn, gh_e_m, gh_e_left, gh_e_bufn; char gh_e_buf0;
void w_read_string(void); void w_read_list(void); void w_read_tuple(void); void w_read_property_value(void); int w_read_property(void);
void w_skip_line(void); void w_skip_white_spaces(void); void w_skip_comments(void); void w_skip_ws_or_comments(void);
void w_read_property_name(void); void w_read_function_name(void); void w_read_function_argument(void); void w_read_function_call_expr(void);
void w_read_section_name(void); void w_read_section(void); void w_read_sections(void);
#define POST(c) __CPROVER_assert(c, "postcondition: " #c)
static void any_stream(void)
{
  gh_left = nondet_ulong(); gh_cur = nondet_int() & 0xff; gh_bufn = nondet_ulong();
  gh_eofbit = nondet_int() != 0; gh_failbit = nondet_int() != 0;
  /* a reachable parser state (STREAM_OK in gen.cpp.in; the put-back byte is constrained in setup()) */
  __CPROVER_assume(gh_left <= (1UL << 40) && gh_bufn <= 1 && (!gh_eofbit || gh_left == 0) && (!gh_failbit || gh_eofbit));
  gh_lc_phase = nondet_int(); gh_p_effect_ok = 0; gh_p_weak_ok = 0; gh_p_progress = 0; gh_p_result = 0;
}
/* the contract towards callers */
#define CALLER_CONTRACT POST(gh_p_effect_ok); POST(gh_p_result ==> gh_p_progress)
/* functions whose callers only need: reachable state, measure not grown, result implies progress */
#define CALLER_CONTRACT_WEAK POST(gh_p_weak_ok); POST(gh_p_result ==> gh_p_progress)
void h_read_string(void) {any_stream(); w_read_string(); CALLER_CONTRACT; CANARY_h_read_string;}
void h_read_list(void) {any_stream(); w_read_list(); CALLER_CONTRACT; CANARY_h_read_list;}
void h_read_tuple(void) {any_stream(); w_read_tuple(); CALLER_CONTRACT; CANARY_h_read_tuple;}
void h_read_property_value(void) {any_stream(); w_read_property_value(); CALLER_CONTRACT; CANARY_h_read_property_value;}
void h_read_property(void)
{
  any_stream();
  int k = w_read_property();
  CALLER_CONTRACT_WEAK;
  __CPROVER_assert(k != 4, "postcondition: a simple property returned by read_property has a value object (never null)");
  CANARY_h_read_property;
}
void h_skip_line(void) {any_stream(); w_skip_line(); CALLER_CONTRACT_WEAK; /* result bit = stream was good() at entry */ CANARY_h_skip_line;}
void h_skip_white_spaces(void) {any_stream(); w_skip_white_spaces(); POST(gh_p_effect_ok); POST(!gh_p_result); CANARY_h_skip_white_spaces;}
void h_skip_comments(void) {any_stream(); w_skip_comments(); POST(gh_p_weak_ok); POST(!gh_p_result); CANARY_h_skip_comments;}
void h_skip_ws_or_comments(void) {any_stream(); w_skip_ws_or_comments(); CALLER_CONTRACT_WEAK; CANARY_h_skip_ws_or_comments;}
void h_read_property_name(void) {any_stream(); w_read_property_name(); CALLER_CONTRACT_WEAK; CANARY_h_read_property_name;}
void h_read_function_name(void) {any_stream(); w_read_function_name(); CALLER_CONTRACT_WEAK; CANARY_h_read_function_name;}
void h_read_function_argument(void) {any_stream(); w_read_function_argument(); CALLER_CONTRACT_WEAK; CANARY_h_read_function_argument;}
void h_read_function_call_expr(void) {any_stream(); w_read_function_call_expr(); CALLER_CONTRACT_WEAK; CANARY_h_read_function_call_expr;}
void h_read_section_name(void) {any_stream(); w_read_section_name(); CALLER_CONTRACT_WEAK; CANARY_h_read_section_name;}
void h_read_section(void) {any_stream(); w_read_section(); CALLER_CONTRACT_WEAK; CANARY_h_read_section;}
void h_read_sections(void) {any_stream(); w_read_sections(); POST(gh_p_weak_ok); CANARY_h_read_sections;}
