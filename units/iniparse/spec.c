/* Contracts for the INI value parser (C25), input streams of ANY length and content:
   - no ABG_ASSERT fails, std::abort() is not reached, no null pointer is dereferenced, the put-back
     buffer is never popped empty (obligations generated inside the real text);
   - every loop terminates: the measure 2*(bytes left) + |put-back buffer| strictly decreases;
   - read_property: a simple property handed to the section readers always carries a value object
     (the readers of src/abg-suppression.cc call get_value()->as_string() on each one they find). */
#include "vstd_c.h"
#include "ghost.h"
int gh_lc_phase, gh_cur, gh_eofbit, gh_failbit; unsigned long gh_left, gh_bufn;
void w_read_string(void); void w_read_list(void); void w_read_tuple(void); void w_read_property_value(void); int w_read_property(void);
static void any_stream(void)
{
  gh_left = nondet_ulong(); gh_cur = nondet_int() & 0xff; gh_bufn = nondet_ulong();
  gh_eofbit = nondet_int() != 0; gh_failbit = nondet_int() != 0;
  /* a reachable parser state (STREAM_OK in gen.cpp.in; the put-back byte is constrained in setup()) */
  __CPROVER_assume(gh_left <= (1UL << 40) && gh_bufn <= 1 && (!gh_eofbit || gh_left == 0) && (!gh_failbit || gh_eofbit));
  gh_lc_phase = nondet_int();
}
void h_read_string(void) {any_stream(); w_read_string(); CANARY_h_read_string;}
void h_read_list(void) {any_stream(); w_read_list(); CANARY_h_read_list;}
void h_read_tuple(void) {any_stream(); w_read_tuple(); CANARY_h_read_tuple;}
void h_read_property_value(void) {any_stream(); w_read_property_value(); CANARY_h_read_property_value;}
void h_read_property(void)
{
  any_stream();
  int k = w_read_property();
  __CPROVER_assert(k != 4, "postcondition: a simple property returned by read_property has a value object (never null)");
  CANARY_h_read_property;
}
