#ifndef INIPARSE_GHOST_H
#define INIPARSE_GHOST_H
#ifdef __cplusplus
extern "C" {
#endif
extern int gh_lc_phase;
extern unsigned long gh_left;     /* bytes the stream can still deliver */
extern int gh_cur;                /* the next byte (what peek() shows and get() returns) */
extern int gh_eofbit, gh_failbit;
extern unsigned long gh_bufn;     /* mirror of buf_.size() at entry (inputs) */
#ifdef __cplusplus
}
#endif
#endif
