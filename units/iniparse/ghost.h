#ifndef INIPARSE_GHOST_H
#define INIPARSE_GHOST_H
#ifdef __cplusplus
extern "C" {
#endif
extern int gh_lc_phase;
extern unsigned long gh_left;     /* bytes the stream can still deliver */
extern int gh_cur;                /* the next byte (what peek() shows and get() returns) */
extern int gh_eofbit, gh_failbit;
extern unsigned long gh_bufn;     /* size of the put-back buffer at entry (input) */
/* snapshot of the stream at the entry of the function under verification */
extern unsigned long gh_e_m, gh_e_left, gh_e_bufn; extern int gh_e_cur, gh_e_eof, gh_e_fail, gh_e_good; extern char gh_e_buf0;
/* postcondition bits computed after the call */
extern int gh_p_effect_ok;        /* reachable stream state, and unchanged-or-progress w.r.t. the entry */
extern int gh_p_weak_ok;          /* reachable stream state and the measure did not grow */
extern int gh_p_progress;         /* the measure is strictly smaller than at entry */
extern int gh_p_result;           /* the function's result was non-nil / non-empty / true (function specific) */
#ifdef __cplusplus
}
#endif
#endif
