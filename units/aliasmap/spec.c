/* Contract for symtab::setup_symbol_lookup_tables (C18: symbols at the same address are recorded as
   aliases of each other).  A defined symbol whose address is not recorded yet becomes the symbol of
   that address; one whose address is already recorded is added, exactly once, as an alias of the MAIN
   symbol of the group recorded there; an undefined symbol changes nothing.  The address is the value
   adjusted as "ELF for the Arm Architecture" says (bit 0 cleared for ARM32 functions; top byte =
   sign extension of bit 55 on AArch64).                                                          */
#include "vstd_c.h"
int gh_arm32, gh_arm64, gh_ppc64, gh_ppc32, gh_is_function, gh_is_defined, gh_present, gh_alias_added, gh_alias_wrong, gh_inserted, gh_ppc_update;
unsigned long gh_adjusted, gh_key;
unsigned long w_setup(void);
#define POST(c) __CPROVER_assert(c, "postcondition: " #c)
void h_setup_lookup_tables(void)
{
  gh_arm32 = nondet_int() != 0; gh_arm64 = nondet_int() != 0; gh_ppc64 = nondet_int() != 0; gh_ppc32 = nondet_int() != 0;
  gh_is_function = nondet_int() != 0; gh_is_defined = nondet_int() != 0; gh_present = nondet_int() != 0;
  gh_adjusted = nondet_ulong(); gh_alias_added = 0; gh_alias_wrong = 0; gh_inserted = 0; gh_ppc_update = 0; gh_key = 0;
  unsigned long r = w_setup();
  unsigned long want = gh_adjusted;
  if (gh_arm32 && gh_is_function) want &= ~1UL;
  if (gh_arm64) want = (want & (1UL << 55)) ? (want | (0xffUL << 56)) : (want & ~(0xffUL << 56));
  POST(r == want);
  POST(gh_is_defined ==> gh_key == want);                                    /* grouped by that address */
  POST((gh_is_defined && !gh_present) ==> (gh_inserted == 1 && gh_alias_added == 0));
  POST((gh_is_defined && gh_present) ==> (gh_inserted == 0 && gh_alias_added == 1 && !gh_alias_wrong));   /* alias of the group's main symbol */
  POST(!gh_is_defined ==> (gh_inserted == 0 && gh_alias_added == 0));
  CANARY_h_setup_lookup_tables;
}
