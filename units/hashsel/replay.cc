// Native replay for U-hashsel.  The verifier's counterexample for a loop obligation is an
// intermediate loop state, so the replay searches concrete inputs instead: every section list of
// length <= 6 over {other, SHT_HASH, SHT_GNU_HASH} is fed to the real (unmodified) function,
// compiled natively, and the postcondition of C37 is evaluated on the result.
#include "replay_util.h"
#define __CPROVER_assert(c, m) ((void) 0)
#define __CPROVER_assume(c) ((void) 0)
extern "C" {
unsigned long gh_nsec, gh_cursor, gh_w; int gh_seen_gnu, gh_seen_sysv, gh_w_visited, gh_lc_phase;
unsigned gh_w_type, gh_w_link;
int nondet_int(void) {return 0;} unsigned long nondet_ulong(void) {return 0;}
}
unsigned rp_type[16], rp_link[16];
#include "gen.cpp"

int main(int argc, char** argv)
{
  replay_args a(argc, argv);
  static const unsigned kinds[3] = {1 /*SHT_PROGBITS*/, SHT_HASH, SHT_GNU_HASH};
  for (unsigned n = 0; n <= 6; ++n)
    {
      unsigned long combos = 1; for (unsigned k = 0; k < n; ++k) combos *= 3;
      for (unsigned long c = 0; c < combos; ++c)
	{
	  unsigned long x = c; bool any_gnu = false, any_sysv = false;
	  for (unsigned k = 1; k <= n; ++k, x /= 3)
	    {
	      rp_type[k] = kinds[x % 3]; rp_link[k] = 100 + k;
	      any_gnu |= rp_type[k] == SHT_GNU_HASH; any_sysv |= rp_type[k] == SHT_HASH;
	    }
	  gh_nsec = n; gh_cursor = 0; gh_w = 1000; gh_seen_gnu = gh_seen_sysv = gh_w_visited = 0;
	  Elf e; size_t ht = 0, st = 0;
	  int kind = find_hash_table_section_index(&e, ht, st);
	  int want = any_gnu ? GNU_HASH_TABLE_KIND : any_sysv ? SYSV_HASH_TABLE_KIND : NO_HASH_TABLE_KIND;
	  bool ok = kind == want;
	  if (ok && kind != NO_HASH_TABLE_KIND)
	    ok = ht >= 1 && ht <= n && st == rp_link[ht]
	      && rp_type[ht] == (kind == GNU_HASH_TABLE_KIND ? (unsigned) SHT_GNU_HASH : (unsigned) SHT_HASH);
	  if (!ok)
	    {
	      printf("REPLAY-CONFIRMED: section types (index 1..%u):", n);
	      for (unsigned k = 1; k <= n; ++k) printf(" %s", rp_type[k] == SHT_HASH ? "SHT_HASH" : rp_type[k] == SHT_GNU_HASH ? "SHT_GNU_HASH" : "other");
	      printf(" -> kind=%d ht_section_index=%lu symtab_section_index=%lu (sh_link of that section: %u); expected kind=%d with the index and sh_link of a section of that kind\n",
		     kind, ht, st, ht <= n ? rp_link[ht] : 0, want);
	      return 1;
	    }
	}
    }
  printf("REPLAY: no failing section list of length <= 6 found\n");
  return 0;
}
