/* ghost ELF section list for U-hashsel (scalars only: shared by C and C++ sides) */
#ifndef HASHSEL_GHOST_H
#define HASHSEL_GHOST_H
#ifdef __cplusplus
extern "C" {
#endif
extern unsigned long gh_nsec;    /* number of sections after the null section */
extern unsigned long gh_cursor;  /* index of the section elf_nextscn handed out last */
extern int gh_seen_gnu, gh_seen_sysv;       /* a SHT_GNU_HASH / SHT_HASH header was handed out */
extern unsigned long gh_w;       /* watched section index */
extern int gh_lc_phase;          /* 0: loop base case, 1: inductive step and exit */
extern int gh_w_visited; extern unsigned gh_w_type, gh_w_link;
#ifdef __cplusplus
}
#endif
#endif
