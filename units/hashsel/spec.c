/* Contracts for U-hashsel.  From C37: "for SysV, GNU and combined hash-table layouts, in whatever
   order the linker places the hash sections": the reported kind is GNU iff a SHT_GNU_HASH section
   exists, SysV iff only SHT_HASH exists, none otherwise; the reported section index is that of a
   section of the reported kind, and the reported symbol-table index is that section's sh_link. */
#include "vstd_c.h"
#include "ghost.h"
typedef unsigned long size_t;
unsigned long gh_nsec, gh_cursor, gh_w;
int gh_seen_gnu, gh_seen_sysv, gh_w_visited;
unsigned gh_w_type, gh_w_link;
int gh_lc_phase;
#define SHT_HASH 5u
#define SHT_GNU_HASH 0x6ffffff6u

int w_kind_enum(int which);
int K_NONE, K_SYSV, K_GNU;

int w_find_hash_table_section_index(int have_elf, size_t *out)
__CPROVER_requires(__CPROVER_is_fresh(out, 2 * sizeof(size_t)))
__CPROVER_requires(gh_cursor == 0 && gh_seen_gnu == 0 && gh_seen_sysv == 0 && gh_w_visited == 0)
__CPROVER_requires(gh_nsec <= 65535 && gh_w >= 1)
__CPROVER_requires(K_NONE != K_SYSV && K_NONE != K_GNU && K_SYSV != K_GNU)
__CPROVER_ensures(!have_elf ==> __CPROVER_return_value == K_NONE)
/* kind */
__CPROVER_ensures(have_elf ==> ((__CPROVER_return_value == K_GNU) == (gh_seen_gnu != 0)))
__CPROVER_ensures(have_elf ==> ((__CPROVER_return_value == K_SYSV) == (gh_seen_sysv != 0 && gh_seen_gnu == 0)))
__CPROVER_ensures(have_elf ==> ((__CPROVER_return_value == K_NONE) == (gh_seen_sysv == 0 && gh_seen_gnu == 0)))
/* every section was looked at */
__CPROVER_ensures(have_elf ==> gh_cursor == gh_nsec)
/* the reported index is a real section ... */
__CPROVER_ensures((have_elf && __CPROVER_return_value != K_NONE) ==> (1 <= out[0] && out[0] <= gh_nsec))
/* ... of the reported kind, with the reported link (for every section index gh_w) */
__CPROVER_ensures((have_elf && __CPROVER_return_value == K_GNU && out[0] == gh_w) ==>
                  (gh_w_visited && gh_w_type == SHT_GNU_HASH && out[1] == gh_w_link))
__CPROVER_ensures((have_elf && __CPROVER_return_value == K_SYSV && out[0] == gh_w) ==>
                  (gh_w_visited && gh_w_type == SHT_HASH && out[1] == gh_w_link))
__CPROVER_assigns(__CPROVER_object_whole(out), gh_cursor, gh_seen_gnu, gh_seen_sysv, gh_w_visited, gh_w_type, gh_w_link)
CANARY_w_find_hash_table_section_index
;

void h_find_hash_table_section_index(void)
{
  K_NONE = w_kind_enum(0); K_SYSV = w_kind_enum(1); K_GNU = w_kind_enum(2);
  gh_nsec = nondet_ulong(); gh_w = nondet_ulong();
  gh_cursor = 0; gh_seen_gnu = 0; gh_seen_sysv = 0; gh_w_visited = 0;
  gh_lc_phase = nondet_int();
  size_t out[2];
  int in_have_elf = nondet_int();
  w_find_hash_table_section_index(in_have_elf, out);
}
