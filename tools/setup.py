#!/usr/bin/env python3
"""setup_cmd: nothing persistent is built; verify the tools the checks need are present."""
import shutil, subprocess, sys
ok = True
for t in ('cbmc', 'goto-cc', 'goto-instrument', 'g++'):
    if not shutil.which(t):
        print('missing tool:', t); ok = False
if ok:
    print(subprocess.check_output(['cbmc', '--version']).decode().strip())
sys.exit(0 if ok else 1)
