#!/usr/bin/env python3
"""Debug helper: print the source lines visited by the counterexample of a failed obligation.
usage: trace.py <harness.log> [property-substring]"""
import json, sys, re
out = open(sys.argv[1]).read()
chunks = [m.start() for m in re.finditer(r'^\[$', out, flags=re.M)]
data = None
for st in chunks:
    try:
        end = out.index('\n]\n', st) + 2
        d = json.loads(out[st:end])
    except Exception:
        continue
    if any('result' in x for x in d):
        data = d
        break
want = sys.argv[2] if len(sys.argv) > 2 else ''
for item in data:
    for r in item.get('result', []):
        if r.get('status') == 'FAILURE' and want in r.get('property', ''):
            print('==', r['property'], r['description'])
            for st in r.get('trace', []):
                sl = st.get('sourceLocation', {})
                t = st.get('stepType')
                if t == 'assignment' and not st.get('hidden'):
                    v = st.get('value', {})
                    print('   %s:%s  %s = %s' % (sl.get('file', '?').split('/')[-1], sl.get('line'), st.get('lhs'), v.get('data', v.get('name'))))
                elif t in ('function-call', 'function-return'):
                    print('   %s:%s  %s %s' % (sl.get('file', '?').split('/')[-1], sl.get('line'), t, st.get('function', {}).get('displayName')))
            sys.exit(0)
