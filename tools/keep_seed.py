#!/usr/bin/env python3
"""record a confirmed seeded change under /verif/seeded/<name>/ (patch.diff, demo, meta.json)"""
import json, os, shutil, sys
src, prop, name, demo, needs, confirm, caught = sys.argv[1:8]
d = os.path.join('/verif/seeded', name)
os.makedirs(d, exist_ok=True)
shutil.copy(os.path.join(src, 'patch.diff'), d)
shutil.copy(os.path.join(src, demo), d)
json.dump({'property': prop, 'needs_to_manifest': needs, 'demonstration': demo,
           'confirmed': confirm, 'caught_by': caught, 'origin': 'independent sub-agent given only the property text'},
          open(os.path.join(d, 'meta.json'), 'w'), indent=1)
print('kept', d)
