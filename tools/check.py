#!/usr/bin/env python3
"""Per-property front end.

  python3 tools/check.py <PROP> --tier quick|thorough
  python3 tools/check.py --replay <replay.json>

exit 0  every obligation of every harness serving <PROP> was discharged on the text
        extracted from /repo's current working tree (KNOWN-FINDING lines may be printed)
exit 1  at least one obligation failed and is not a listed known finding;
        prints 'VIOLATION property=<id> replay=<path>[ no-failing-input-found]'
exit 2  inconclusive (extraction/compile/tool failure, timeout, vacuity guard) - no
        VIOLATION line is ever printed in that case.
"""
import argparse
import concurrent.futures as cf
import glob
import json
import os
import re
import shutil
import subprocess
import sys
import time

HERE = os.path.dirname(os.path.abspath(__file__))
VERIF = os.path.dirname(HERE)
sys.path.insert(0, HERE)
import run_unit as R  # noqa: E402

TRUSTED_COMMON = [
    'CBMC 6.11.0 (C++ front end, goto-instrument --dfcc contract instrumentation, SAT back end)',
    'tools/extract.py brace matcher (extracted text is hashed and listed)',
    'stub environment of each unit (env part of gen.cpp.in, /verif/vstd): stands for libstdc++ / libelf / libdw / '
    'libabigail classes the function only uses',
    'machine arithmetic is modelled exactly (bit-vectors); no mathematical-integer abstraction',
    'termination only where a loop contract carries a decreases clause',
]


def all_units():
    us = []
    for p in sorted(glob.glob(os.path.join(VERIF, 'units', '*', 'unit.json'))):
        us.append(R.load_unit(os.path.basename(os.path.dirname(p))))
    return us


def load_known():
    kf = []
    p = os.path.join(VERIF, 'known_findings.txt')
    if os.path.exists(p):
        for l in open(p):
            l = l.strip()
            if l.startswith('finding:'):
                d = dict(re.findall(r'(\w+)=("[^"]*"|\S+)', l))
                d = {k: v.strip('"') for k, v in d.items()}
                d['raw'] = l
                kf.append(d)
    return kf


def finding_key(f):
    return f['description'] + ' @ ' + f['line_text']


def match_known(prop, res, f, known):
    for k in known:
        if k.get('property') != prop or k.get('harness') != res['harness']:
            continue
        if k.get('obligation') and k['obligation'] not in (f.get('description') or ''):
            continue
        if k.get('at') and k['at'] not in (f.get('line_text') or ''):
            continue
        return k
    return None


def is_internal(ob):
    p = ob.get('property') or ''
    return p.startswith('__CPROVER_contracts') or p.startswith('__CPROVER_')


def native_replay(unit, harness, inputs, bdir):
    """Compile the unit's replay.cc against the freshly extracted text and run it.
    returns (confirmed: True/False/None, output)"""
    rp = os.path.join(unit['dir'], 'replay.cc')
    if not os.path.exists(rp):
        return None, 'unit has no native replay driver'
    exe = os.path.join(bdir, 'replay_' + harness)
    cmd = ['g++', '-std=c++11', '-O0', '-w', '-fpermissive', '-DVERIF_NATIVE=1',
           '-I', os.path.join(VERIF, 'vstd'), '-I', unit['dir'], '-I', bdir,
           '-I', os.path.join(R.REPO, 'include'), '-I', os.path.join(R.REPO, 'src'), '-I', R.REPO] \
        + R.config_defines() + unit.get('replay_flags', []) + [rp, '-o', exe] + unit.get('replay_libs', [])
    p = subprocess.run(cmd, cwd=bdir, stdout=subprocess.PIPE, stderr=subprocess.STDOUT)
    if p.returncode != 0:
        return None, 'replay driver does not compile:\n' + p.stdout.decode(errors='replace')[-2000:]
    args = [exe, harness] + ['%s=%s' % (k, v) for k, v in sorted(inputs.items())]
    try:
        q = subprocess.run(args, cwd=bdir, stdout=subprocess.PIPE, stderr=subprocess.STDOUT, timeout=120)
    except subprocess.TimeoutExpired:
        return True, 'replay: native execution did not terminate within 120 s (non-termination on this input)'
    out = q.stdout.decode(errors='replace')
    if q.returncode == 1 or q.returncode < 0 or q.returncode >= 128:
        if q.returncode != 1:
            out += '\n[native execution died with status %d]' % q.returncode
        return True, out
    if q.returncode == 0:
        return False, out
    return None, out


def run_property(prop, tier, only_unit=None):
    t0 = time.time()
    seed = int(os.environ.get('VERIF_SEED', '0') or 0)
    units = all_units()
    jobs = []
    for u in units:
        if only_unit and u['name'] != only_unit:
            continue
        hs = [h for h in u['harnesses'] if prop in h.get('props', [])
              and (tier == 'thorough' or not h.get('thorough_only'))]
        if hs:
            jobs.append((u, hs))
    if not jobs:
        print('INCONCLUSIVE property=%s no harness serves this property' % prop)
        return 2
    broot = os.path.join(VERIF, 'build', '%s-%s' % (prop, tier))
    shutil.rmtree(broot, ignore_errors=True)
    os.makedirs(broot)
    os.makedirs(os.path.join(VERIF, 'build', 'replay'), exist_ok=True)
    os.makedirs(os.path.join(VERIF, 'evidence'), exist_ok=True)
    results = []
    unit_infos = {}
    inconclusive = []
    # prepare units (extraction + C++ compile) in parallel, then all harnesses in parallel
    R.TIER = tier
    with cf.ThreadPoolExecutor(max_workers=16) as ex:
        futs = {}
        for u, hs in jobs:
            futs[ex.submit(R.prepare_unit, u, os.path.join(broot, u['name']))] = (u, hs)
        ready = []
        for f in cf.as_completed(futs):
            u, hs = futs[f]
            try:
                unit_infos[u['name']] = f.result()
                ready.append((u, hs))
            except R.Inconclusive as e:
                inconclusive.append('unit %s: %s' % (u['name'], e))
        hf = {}
        for u, hs in ready:
            for h in hs:
                hf[ex.submit(R.run_harness, u, h, os.path.join(broot, u['name']), tier,
                             unit_infos[u['name']])] = (u, h)
        for f in cf.as_completed(hf):
            u, h = hf[f]
            r = f.result()
            r['_unit'] = u
            results.append(r)
    results.sort(key=lambda r: (r['unit'], r['harness']))
    known = load_known()
    violations = []
    known_hits = []
    n_ob = n_dis = 0
    n_ob_b = n_dis_b = 0
    bounded_units = []
    samples = []
    functions = []
    solver_s = 0.0
    backends = set()
    assumed = []
    for r in results:
        if r['status'] == 'inconclusive':
            inconclusive.append('%s/%s: %s' % (r['unit'], r['harness'], r.get('reason')))
            continue
        obs = [o for o in r['obligations'] if not is_internal(o)]
        ok = [o for o in obs if o['status'] == 'SUCCESS']
        solver_s += r.get('solver_wall_s', 0)
        backends.add(r['backend'])
        for a in r.get('assumed', []):
            if a not in assumed:
                assumed.append(a)
        if r['mode'] == 'bounded':
            n_ob_b += len(obs)
            n_dis_b += len(ok)
        else:
            n_ob += len(obs)
            n_dis += len(ok)
        for fn in r.get('functions', []):
            functions.append({'function': fn, 'unit': r['unit'], 'harness': r['harness'],
                              'mode': r['mode'], 'enforced_contract': r.get('enforce'),
                              'callee_contracts_used': r.get('replace', [])})
        if len(samples) < 12:
            for o in obs[:2]:
                samples.append({'harness': r['harness'], 'obligation': o['property'],
                                'description': o['description'], 'status': o['status'],
                                'at': '%s:%s' % (o.get('file'), o.get('line'))})
        for f in r['failed']:
            k = match_known(prop, r, f, known)
            if k:
                known_hits.append((k, r, f))
                continue
            violations.append((r, f))
    # bounded bookkeeping
    bounded_units = []
    for r in results:
        if r.get('mode') == 'bounded' and r['status'] != 'inconclusive':
            h = [h for h in r['_unit']['harnesses'] if h['name'] == r['harness']][0]
            b = h.get('unwind_thorough') if tier == 'thorough' and h.get('unwind_thorough') else h.get('unwind')
            bounded_units.append({'unit': r['unit'], 'harness': r['harness'], 'unwind': b,
                                  'bound': (h.get('bound_note_thorough') if tier == 'thorough' and h.get('bound_note_thorough') else h.get('bound_note', '')),
                                  'obligations': len([o for o in r['obligations'] if not is_internal(o)])})
    rc = 0
    printed = set()
    for k, r, f in known_hits:
        line = 'KNOWN-FINDING: property=%s %s' % (prop, k['raw'][len('finding:'):].strip())
        if line not in printed:
            print(line)
            printed.add(line)
    vcount = 0
    for r, f in violations:
        vcount += 1
        u = r['_unit']
        rpath = os.path.join(VERIF, 'build', 'replay', '%s-%s-%s-%d.json' % (prop, r['unit'], r['harness'], vcount))
        rec = {'property': prop, 'unit': r['unit'], 'harness': r['harness'],
               'failed_obligation': f['property'], 'description': f['description'],
               'source': '%s:%s' % (f.get('file'), f.get('line')), 'source_text': f.get('line_text'),
               'inputs': f.get('trace_inputs', {}), 'checker_cmd': r.get('checker_cmd'),
               'verifier_log': r['log'], 'tier': tier}
        confirmed, out = (None, 'verifier gave no input assignment')
        if f.get('trace_inputs') is not None:
            confirmed, out = native_replay(u, r['harness'], f.get('trace_inputs', {}),
                                           os.path.join(broot, r['unit']))
        rec['native_replay'] = {'confirmed': confirmed, 'output': out[-4000:]}
        rec['verifier_output'] = 'obligation %s: %s -> FAILURE at %s:%s `%s`' % (
            f['property'], f['description'], f.get('file'), f.get('line'), f.get('line_text'))
        json.dump(rec, open(rpath, 'w'), indent=1)
        tail = '' if confirmed else ' no-failing-input-found'
        print('FAILED-OBLIGATION unit=%s harness=%s obligation=%s (%s) at %s:%s `%s` inputs=%s'
              % (r['unit'], r['harness'], f['property'], f['description'], f.get('file'), f.get('line'),
                 f.get('line_text'), json.dumps(f.get('trace_inputs', {}))))
        print('VIOLATION property=%s replay=%s%s' % (prop, rpath, tail))
        rc = 1
    if inconclusive and rc == 0:
        for i in inconclusive:
            print('INCONCLUSIVE property=%s %s' % (prop, i))
        rc = 2
    wall = time.time() - t0
    ents = []
    for un, info in unit_infos.items():
        for e in info['entities']:
            e2 = dict(e)
            e2['unit'] = un
            ents.append(e2)
    rew = {un: info['rewrites_fired'] for un, info in unit_infos.items() if info['rewrites_fired']}
    trusted = list(TRUSTED_COMMON)
    for u, hs in jobs:
        for t in u.get('trusted', []):
            if t not in trusted:
                trusted.append(t)
    ev = {
        'property_id': prop, 'tier': tier, 'seed': seed, 'level': 'proof',
        'coverage': {
            'obligations': n_ob, 'discharged': n_dis,
            'checker_cmd': 'per harness: goto-cc (C++ front end on text extracted from /repo) ; goto-cc spec.c ; '
                           'goto-instrument --dfcc <h> --enforce-contract <w> [--replace-call-with-contract ..] '
                           '[--loop-contracts-file .. --apply-loop-contracts] ; cbmc ' + ' '.join(R.BASE_CHECKS)
                           + ' --unwinding-assertions',
            'trusted_base': trusted,
            'explanation': 'obligations/discharged count only harnesses in proof mode (loop-free, or every loop closed by '
                           'a loop contract) and exclude dfcc-library-internal checks; bounded harnesses are listed '
                           'under bounded_units and never counted as proved.',
            'functions_under_contract': functions,
            'extracted_entities': ents,
            'rewrite_rules_fired': rew,
            'bounded_units': bounded_units,
            'bounded_obligations': n_ob_b, 'bounded_discharged': n_dis_b,
            'harnesses': [{'unit': r['unit'], 'harness': r['harness'], 'status': r['status'], 'mode': r['mode'],
                           'backend': r['backend'], 'canary': r.get('canary'),
                           'obligations': len([o for o in r['obligations'] if not is_internal(o)]),
                           'dfcc_internal_obligations': len([o for o in r['obligations'] if is_internal(o)]),
                           'solver_wall_s': r.get('solver_wall_s'), 'wall_s': r['wall_s'],
                           'reason': r.get('reason')} for r in results],
            'back_ends': sorted(backends), 'solver_wall_s': round(solver_s, 2),
            'samples': samples,
            'known_findings_hit': [k['raw'] for k, _, _ in known_hits],
            'inconclusive': inconclusive,
        },
        'assumptions': assumed,
        'wall_s': round(wall, 2),
        'violations': vcount,
    }
    if n_ob == 0:
        # only bounded harnesses served this property on this run
        ev['level'] = 'other'
    # the level recorded is the one MANIFEST.json claims for the property (C38: the main theorem is bounded although
    # some of its harnesses are proofs, so the claim - and this record - say 'other')
    try:
        for c in json.load(open(os.path.join(VERIF, 'MANIFEST.json')))['checks']:
            if c['property_id'] == prop:
                ev['level'] = c['level_claimed']['category']
    except (OSError, ValueError, KeyError):
        pass
    json.dump(ev, open(os.path.join(VERIF, 'evidence', prop + '.json'), 'w'), indent=1)
    print('%s tier=%s harnesses=%d proof-obligations=%d discharged=%d bounded-obligations=%d/%d known=%d '
          'violations=%d inconclusive=%d wall=%.1fs -> exit %d'
          % (prop, tier, len(results), n_ob, n_dis, n_dis_b, n_ob_b, len(known_hits), vcount,
             len(inconclusive), wall, rc))
    return rc


def replay(path):
    rec = json.load(open(path))
    u = R.load_unit(rec['unit'])
    bdir = os.path.join(VERIF, 'build', 'replay-run', rec['unit'])
    shutil.rmtree(bdir, ignore_errors=True)
    try:
        R.prepare_unit(u, bdir)
    except R.Inconclusive as e:
        print('INCONCLUSIVE', e)
        return 2
    print('replaying failed obligation %s (%s) at %s `%s`' % (rec['failed_obligation'], rec['description'],
                                                              rec['source'], rec.get('source_text')))
    print('inputs:', json.dumps(rec['inputs']))
    c, out = native_replay(u, rec['harness'], rec['inputs'], bdir)
    print(out)
    if c:
        print('REPLAY: violation reproduced on the natively compiled extracted text')
        return 1
    print('REPLAY: not reproduced natively (%s); verifier output: %s' % (
        'no driver' if c is None else 'postcondition held on this input', rec.get('verifier_output')))
    return 0 if c is False else 2


if __name__ == '__main__':
    ap = argparse.ArgumentParser()
    ap.add_argument('prop', nargs='?')
    ap.add_argument('--tier', default=os.environ.get('VERIF_TIER', 'quick'))
    ap.add_argument('--unit')
    ap.add_argument('--replay')
    a = ap.parse_args()
    if a.replay:
        sys.exit(replay(a.replay))
    sys.exit(run_property(a.prop, a.tier, a.unit))
