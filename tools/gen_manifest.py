#!/usr/bin/env python3
"""Regenerates /verif/MANIFEST.json from the table below + the units that exist.
A property is claimed only if at least one harness in units/*/unit.json serves it."""
import glob
import json
import os

VERIF = os.path.dirname(os.path.dirname(os.path.abspath(__file__)))

TECH = 'CBMC 6.11 code contracts (goto-instrument --dfcc) on functions extracted verbatim from /repo each run'

# id -> (category, text, note, design_ref)
CLAIMS = {
 'C08': ('proof',
         'Contracts on the real abidiff_status operators/predicates (all 2^32 words) and on the real tools/abidiff.cc '
         'main+handle_error (every path under every outcome of the stubbed library calls): exit status uses bits 1,2,4,8 only, '
         '8 implies 4, 2 implies 1, and when no error occurred bit 4 <=> has_net_changes(), bit 8 <=> has_incompatible_changes().',
         'Stub environment for everything main calls (listed in evidence.trusted_base); has_incompatible_changes => has_net_changes '
         'is discharged separately for the default reporter; report-summary emission itself is not within reach.', '5 C08'),
 'C09': ('proof',
         'Contract on the real tools/abidiff.cc main: whenever check_file, guess_file_type or any of the four loaders fails '
         '(ghost g_load_failed) and no suppression told the tool to skip the input, the returned status has the error bit; '
         'handle_error returns ABIDIFF_ERROR exactly for statuses without STATUS_OK.',
         'Assumes the ABIXML/ELF readers return nil (not a partial corpus) on malformed input; libxml2 not modelled.', '5 C09'),
}

CLAIMS.update({
 'C05': ('proof',
         'Chain of contracts on real functions, each link for all inputs: (1) categorize_harmful_diff_node adds exactly the '
         'documented harmful category for every combination of the 29 detection predicates, to the node and its canonical node; '
         '(2) node-level pipeline lemma on harmless_harmful_filter::visit + set_diff_context_from_opts + diff::is_filtered_out: a '
         'node on which a harmful predicate fires (or no predicate at all) is never filtered out with default options; '
         '(3) has_incompatible_changes is true whenever a net removed function/variable exists; (4) abidiff main maps '
         'has_net_changes/has_incompatible_changes to bits 4/8; (0) eleven detection predicates (and their const diff* overloads) of abg-comp-filter.cc (unit predicates) equal their definition over stub diff nodes.',
         'Scoped to the anchored mechanisms. Assumed (not within reach of CBMC\'s C++ front end): the diff tree contains a node on '
         'which the predicate fires, category propagation to parent nodes, redundancy marking, and '
         'apply_filters_and_compute_diff_stats counting an unfiltered changed interface.', '5 C05'),
 'C07': ('proof',
         'Contracts on the real default bitmaps (documented harmless kinds are in the harmless bitmap, bitmaps disjoint and '
         'exhaustive), on set_diff_context_from_opts (harmless categories switched off iff !--harmless), on '
         'categorize_harmless_diff_node (only harmless bits, documented kinds get their bit) and the node-level pipeline lemma: a '
         'node on which only harmless predicates fire is filtered by default and shown with --harmless.',
         'Scoped as C05; the detection predicates themselves (IR level) are ghost inputs, except access_changed, has_enumerator_insertion and static_data_member_added_or_removed (bounded: <= 2+2 members), which are under contract in unit predicates.', '5 C07'),
 'C15': ('proof',
         'Contract on the real die_member_offset / read_and_convert_DW_at_bit_offset / die_constant_data_member_location / '
         'eval_quickly: for every DIE whose member location is DW_AT_data_bit_offset, a constant or a DW_OP_plus_uconst expression, '
         'the recorded offset equals the DWARF-specified value (both endiannesses, bit-fields incl. wrap-around encodings); the '
         'base-class site of add_or_update_class_type records exactly that offset.',
         'Scoped to member/base offsets. libdw is a ghost DIE model (incl. sign extension of fixed-size forms). Type sizes, arrays '
         'and per-TU type resolution are not decided.', '5 C15'),
 'C43': ('proof',
         'Two-DIE lemma on the real die_member_offset: the DWARF 4 description (data_member_location + byte_size/bit_size/bit_offset) '
         'and the DWARF 5 description (data_bit_offset) of the same member give the same offset on little- and big-endian targets.',
         'Scoped to bit-field/member offsets; strx/line_strp forms and type units are not decided.', '5 C43'),
})

CLAIMS.update({
 'C18': ('proof',
         'Contracts on the real stt/stb/stv_to_* mapping functions (equal to the gABI/GNU table on every defined value; anything '
         'else reaches the abort, which callers must exclude), on elf_symbol::is_public/is_function/is_variable, on '
         'symtab_filter::matches + symtab::make_filter, and on the per-symbol statement regions of symtab::load_: a symbol is '
         'recorded once iff it is a function, IFUNC, TLS or non-absolute object with a known binding, with index, size, type, '
         'binding, visibility, defined and common flags taken from the ELF symbol. get_version_definition_for_versym (any number of '
         'definitions, loop contract): the definition recorded is the one whose index is the low 15 bits of the Versym word, its name '
         'comes from its first Verdaux, and it is marked default exactly when bit 15 (hidden) is clear.',
         'Scoped: libelf accessors are stubs; alias grouping by address, symbol-table choice, get_symbol_versionning_sections are not decided; get_version_for_symbol and get_version_needed_for_versym are under contract too. STB_GNU_UNIQUE is left unconstrained in is_public.', '5 C18'),
 'C28': ('proof',
         'symtab::make_filter()+symtab_filter::matches (real text): the corpus filter keeps exactly the public symbols and, for a '
         'kernel binary, exactly those in ksymtab; load_ region: a __ksymtab_<sym> marker of a kernel binary records <sym> (name '
         'minus 10 characters) as exported and is not itself recorded as a symbol.',
         'Scoped: is_linux_kernel detection and the later name->symbol marking loop (range-for over unordered containers) are '
         'outside the front end; --no-linux-kernel-mode wiring is not decided.', '5 C28'),
 'C34': ('proof',
         'Memory safety, absence of abort/assertion failure/division by zero and bounded termination, discharged as CBMC '
         'obligations with NO validity precondition on the input, for: find_hash_table_section_index, '
         'lookup_symbol_from_sysv_hash_tab, setup_gnu_ht, bloom_word_at, get_elf_class_size_in_bytes, '
         'lookup_symbol_from_gnu_hash_tab (arbitrary section content and size up to 16 MiB, arbitrary symbols, any libelf call may '
         'fail), lookup_symbol_from_symtab and the program-header loop body of lookup_data_tag_from_dynamic_segment (any header, '
         'sh_entsize / entry size 0 included, sections below 2 GiB, any entries, any libelf call may '
         'fail), get_version_definition_for_versym (arbitrary version-definition section), the stt/stb/stv mappings and the per-symbol region of symtab::load_ (every st_info/st_other/st_shndx, names already recorded '
         'as exported / with a CRC, a COMMON symbol whose name other symbols carry (bounded: <= 3), a <name>.cfi symbol with any '
         'number of symbols called <name>), read_and_convert_DW_at_bit_offset and die_member_offset on ANY member DIE (attributes present '
         'or absent in any combination); a version reported by the version lookups has a non-empty name (what the hash-table '
         'lookups assert). Loops are '
         'closed by inductive loop contracts (loop-rule generator).',
         'Scoped to those functions (incl. get_version_needed_for_versym and get_version_for_symbol). libelf/libdw are a ghost model; '
         'the rest of the DWARF reader and the rest of symtab::load_ are not decided; signed overflow of a '
         'member byte offset >= 2^60 is excluded (undefined behaviour, not a crash: C35).', '5 C34'),
 'C37': ('proof',
         'find_hash_table_section_index: for every section list in any order the reported kind is GNU iff a SHT_GNU_HASH exists '
         '(else SysV iff SHT_HASH exists) and the reported index/symtab link are those of a section of that kind (inductive loop '
         'contract, watched-index ghost instead of quantifiers). SysV and GNU lookups: the walk starts at buckets[hash % nbuckets], '
         'follows chain[] / the run of chain words, looks up every entry it must, reports exactly the symbols whose name matches, '
         'and terminates - stated link by link for arbitrary watched indexes and discharged with inductive loop contracts.',
         'Completeness over a whole chain is an induction outside the verifier over the discharged links. elf_hash/elf_gnu_hash, '
         'name comparison, bloom-filter content and versions are ghost/assumed. The two lookups are checked without --dfcc '
         '(contract as assume/assert around the call; frame not checked).', '5 C37'),
})

CLAIMS.update({
 'C30': ('proof',
         'Whole-function contract on the real compare_prepared_userspace_packages (loop over the first package closed by an '
         'inductive loop contract over an arbitrary number of binaries): the result is exactly (12 if some binary of the first '
         'package is absent from the second) | (or of the statuses of all compared pairs); so a removed binary always yields '
         'bits 4|8, a changed pair always yields its bits, and 0 is returned only when nothing was removed and every pair was '
         'clean. comparison_done_notify::operator() is proved to accumulate task statuses with |=. Real per-binary compare(): the '
         'verdict of a pair is error (1) if either binary cannot be read, 0 if a suppression skips the pair, else exactly '
         '(4 if has_net_changes) | (8 if has_incompatible_changes) - what abidiff computes for the pair.',
         'Packages, the worker queue (runs the notifier once per task; its net effect is modelled through the notifier contract) '
         'are stubs; the library calls below the per-pair compare() are stubs. Checked without --dfcc '
         '(assume/assert around the call).', '5 C30'),
 'C14': ('proof',
         'The ordering functor that fixes the order of abipkgdiff results, elf_size_is_greater (real text), equals the '
         'lexicographic order on (size sum descending, name ascending) for all inputs, hence is a strict weak order whose only '
         'ties are equal keys; no signed overflow for sizes < 2^62. symbol_sort (the order of a symtab\'s symbols, real text): '
         'equals the order of the symbols\' id strings, a strict weak order with ties only between equal ids.',
         'Scoped to those two functors. Absence of pointer-ordered iteration in the writer/comparison engine (sort_types, sort_string_* '
         'helpers over IR) is not decided.', '5 C14'),
})

CLAIMS.update({
 'C04': ('proof',
         'Contracts on the real escape_xml_string / escape_xml_comment (strings of any length, inductive loop contract over an '
         'arbitrary watched output position): the text appended contains none of < > \' " and every & starts one of the five '
         'predefined entities; comment text contains no "-". Contracts on the real write_corpus (whole function), '
         'write_elf_symbol, write_elf_symbol_reference, write_elf_needed with escape-tracking strings: no free-form string '
         '(path, soname, dependency, symbol name/version/id) enters the document without passing through escape_xml_string. '
         'Bounded (inputs <= 4 bytes, all byte values): same output property on both overloads and unescape(escape(s)) == s.',
         'Scoped to attribute/comment escaping and the listed emitters. "Every type id defined exactly once" and "every symbol '
         'reference listed" (write_referenced_types over the IR) are not decided; the other write_* emitters of abg-writer.cc '
         'are not under contract. Architecture names are assumed to come from the fixed e_machine table.', '5 C04'),
 'C33': ('proof',
         'Contract on the real handle_version_attribute: for every version attribute (absent, empty, or splitting into any '
         'number of fields incl. 0 and 1) the field vector is indexed in bounds and major/minor are recorded once; '
         'unescape_xml_string / unescape_xml_comment (any length, loop contract): the read position never passes size(), the '
         'loops terminate; real tools/abilint.cc main: a nil translation unit / corpus / group is never dereferenced and yields '
         'exit status 1.  BOUNDED part (symload): symtab::load_(function symbol map, variable symbol map), the loader behind every '
         'ABIXML corpus, for any two maps of <= 2 names with <= 2 symbols each (a name may be in both): no internal assertion '
         'fails, it returns true, every non-suppressed symbol is recorded once, every name yields its symbols of both kinds.',
         'Scoped to those functions. The build_* functions of abg-reader.cc, type-id resolution and libxml2 are not decided. '
         'split_string is an assumed callee model in U-version (checked bounded in U-strings).', '5 C33'),
 'C36': ('proof',
         'Output stream modelled as ghost state (pending / bad / lost; any emission may stay buffered or fail, flush/close write '
         'what is pending and may fail). Real write_corpus (whole function, TU loop by loop contract): returns true only if '
         'nothing was lost and nothing is left buffered. Real tail of abidw\'s load_corpus_and_write_abixml and real abilint '
         'main, against that callee contract: exit status 0 implies nothing lost and nothing pending, for every pattern of '
         'buffering and failure, --out-file and stdout.',
         'Assumes iostream reports a failed write in good()/fail(). write_corpus_group and the kernel corpus-group clause of abidw '
         'are under contract too; write_translation_unit is a callee assumption; a failure of an implicit close (destructor, '
         'exit) is outside the model.', '5 C36'),
 'C41': ('other',
         'BOUNDED (never counted as proved): the real string_begins_with, string_ends_with, string_suffix, trim_leading_string, '
         'split_string and decl_names_equal on every pair of strings of <= 5 bytes (all byte values): equal to their '
         'definitions (prefix/suffix/proper-prefix suffix, non-empty trimmed fields in order, symmetry, string equality on '
         'well-formed names without anonymous parts); decl_names_equal on names made of an anonymous struct/union/enum internal '
         'prefix plus <= 2 (quick) / 4 (thorough) arbitrary bytes: symmetric and equal to the component-wise reference.',
         'Bounded model checking of the real text over a concrete bounded std::string (vstd_string.h); strings longer than the '
         'bound are not covered. The component loop of decl_names_equal is unrolled mechanically (4 copies + unwinding assertion) '
         'in the anonymous-name harness.', '5 C41'),
})

CLAIMS.update({
 'C38': ('other',
         'BOUNDED (never counted as proved): the real compute_diff templates (9- and 7-argument overloads), compute_middle_snake, '
         'end_of_fr_d_path_in_k, end_of_frr_d_path_in_k_plus_delta, ends_of_furthest_d_paths_overlap, snake_end_points and the '
         'point/snake/d_path_vec/insertion/deletion/edit_script classes, checked against the contract of compute_diff for every '
         'range of every comparison matrix n x m with n, m <= 3 (quick) / 4 (thorough) - i.e. every pair of sequences of those '
         'lengths over any alphabet with ANY caller-supplied predicate: the points appended to lcs are in-range matches strictly '
         'increasing in both coordinates, their number is LCS(A,B) (textbook dynamic programme), ses_len == edit_script::length() '
         '== |A|+|B|-2 LCS, applying the script to A yields B, the predicate is never applied outside the ranges, every index and '
         'ABG_ASSERT inside holds.  The recursion is handled deductively: the two recursive calls are replaced by compute_diff\'s '
         'own contract on a strictly smaller range (measure checked), so no recursion unwinding is involved.  PROVED for sequences of any '
         'length (loop contracts, unit diffsnake): the local contracts of end_of_fr_d_path_in_k and end_of_frr_d_path_in_k_plus_delta - '
         'the predicate is applied only to in-range elements of the diagonal, the snake consists of matches only and is maximal, only '
         'v[k] is written, every d_path_vec index is in range, the result flag and the four snake points are as specified.',
         'Loops of compute_middle_snake and below are unwound (6 / 7 times, unwinding assertions on) - hence bounded; sequences '
         'longer than the bound are not covered.  d_path_vec\'s std::vector<int> base becomes a member (composition rewrite); '
         'std::vector is a bounded inline-array stand-in.  The iterator type is const int*.', '5 C38'),
})

CLAIMS.update({
 'C24': ('proof',
         'Second and third sentences of the statement. Real class_diff clause of type_suppression::suppresses_diff (BOUNDED: <= 2 '
         'inserted members, <= 2 ranges, every boundary value / evaluation failure / offset): with a has_data_member_inserted_* '
         'constraint the clause never accepts a diff that removes a data member, shrinks the type, or inserts a member outside all '
         'ranges. Real insertion_range::eval_boundary (any number of data members, loop contract): integer boundaries evaluate to the '
         'integer, offset_of/offset_after need exactly one argument (no out-of-range argument access), boundary_value_is_end(v) <=> '
         'v == UINT64_MAX. Real regex::compile: a pattern regcomp rejects yields no regex object.',
         'The first sentence (all constraints conjunctively, over the IR) is not decided. The class_diff clause is a bounded '
         'result; eval_boundary/compile are proofs over stub classes. That callers test the null regex before matching is not decided.',
         '5 C24'),
 'C25': ('proof',
         'INI value parser (class read_context of src/abg-ini.cc), input of ANY length and content: read_string, '
         'read_list_property_value, read_tuple_property_value (inductive loop contracts with a termination measure), '
         'read_property_value, read_property and the loop-free character layer (peek/get/put_back/good/eof/handle_escape/'
         'read_next_char), each against contracts of the member functions it calls: no ABG_ASSERT fails, abort() is unreachable, no '
         'null pointer is dereferenced, the put-back buffer is never popped empty, every loop terminates, and a simple property '
         'always carries a value object (which the section readers dereference). eval_boundary: no out-of-range argument access. '
         'function_suppression::suppresses_function, name_regexp / name_not_regexp blocks (alias ring of any length): regex::match is '
         'never handed a null regex, each block decides with its own regex, every alias is checked; parameter loop of '
         'read_function_suppression: no ABG_ASSERT fails for any list of properties.',
         'Scoped to the INI value parser, eval_boundary and the two function-suppression mechanisms named. skip_*/read_*_name/read_section*/read_function_call_expr are callee '
         'contracts (not discharged); the remaining text of the section readers of abg-suppression.cc, whitelist reading and the evaluation of '
         'suppressions against binaries are not decided (see DESIGN.md for defects seen there).', '5 C25'),
 'C27': ('proof',
         'Real operator<<(ostream&, const regex::escape&) (names of any length, inductive loop contract over a byte-level stream '
         'automaton and an arbitrary watched input position): every character is emitted once, in order; every ERE special '
         'character (POSIX XBD 9.4.3) is preceded by a backslash and no ordinary character is. Real generate_from_strings (any '
         'number of names, loop contract over a token-level automaton): the result is ^(e1|e2|...|ek)$ with every name emitted '
         'once in vector order, and the never-matching pattern for an empty list.',
         'ERE semantics of glibc regcomp/regexec are assumed. gen_suppr_spec_from_kernel_abi_whitelists and the keep/drop filters '
         'of abg-corpus-priv.h are not decided.', '5 C27'),
})

CLAIMS.update({
 'C32': ('proof',
         'Safety part. Real worker::wait_to_execute_a_task (worker loop closed by an inductive loop contract, partial correctness), '
         'queue::priv::schedule_task and do_bring_workers_down over a monitor model of POSIX threads seen from one thread: tasks_todo '
         'is only touched under tasks_todo_mutex, tasks_done and the completion notifier only under tasks_done_mutex (hence the '
         'notifier never runs concurrently with itself); no mutex is locked twice, unlocked when not held or still held at the end '
         'of an iteration; a task taken from the queue is performed once, appended to the completed tasks once, notified once and '
         'signalled once before the worker takes another one; a scheduled task is queued exactly once; every worker is joined once.',
         'That wait_for_workers_to_complete always returns (liveness, lost wake-ups) is NOT decided: executions in which a '
         'condition wait never returns are not followed. The step from one thread\'s view to all interleavings is the standard '
         'monitor argument, outside the verifier. pthread semantics are a model. do_bring_workers_down is bounded in the number of '
         'workers (<= 2).', '5 C32'),
 'C40': ('proof',
         'Real fnv_hash (strings of any length, inductive loop contract against a reference accumulator written from the FNV '
         'specification): the result is the 32-bit FNV-1a hash of the bytes, read once each, in order - a function of the characters '
         'only. Real HASH_TYPE_ID_STYLE case of write_context::get_id_for_type (set of used ids of any finite size, loop contract '
         'with termination): the id is computed from the INTERNAL name; it is fnv_hash(name) when that number is free in the '
         'document, otherwise the first free successor (probes fnv, fnv+1, ...).',
         'get_cached_pretty_representation, the set of used ids, hex formatting and interning are stubs; that equal types have equal '
         'internal names is not decided.', '5 C40'),
 'C42': ('proof',
         'Real class interned_string, hash_interned_string, interned_string_pool::create_string and the free operator==/!= for '
         'every pair of contents interned in one pool and every plain string: identical objects <=> equal contents; ==, !=, <, '
         'empty(), conversion back to std::string and comparisons with plain strings (both operand orders) agree with the contents; '
         'equal strings hash alike; interning is idempotent.',
         'std::string is an abstract value (identity = content, id order = operator<); unordered_map is a functional map tracking '
         'two keys; std::hash<size_t> is the identity. environment::intern (a forwarding call) is not extracted. A bounded sibling '
         '(intern_rt: concrete strings of <= 3 bytes, every byte value) re-checks every operator against the byte-wise reference so '
         'that a comparison operator rewritten by hand stays decided; its obligations are counted as bounded.', '5 C42'),
})

CLAIMS.update({
 'C12': ('proof',
         'Two-run relational contract on the real set_diff_context_from_opts (tools/abidiff.cc) with the real diff_context setters: '
         'for every pair of option sets that differ only in the presentation options of the statement (--no-show-locs, --show-hex/'
         '--show-dec, --show-bytes/--show-bits, --no-linkage-name, --no-show-relative-offset-changes) the resulting contexts are '
         'equal on every verdict-relevant field (allowed categories, leaf mode, stats-only, soname/architecture change, '
         'deleted/changed/added functions and variables, redundancy, unreferenced symbols, unreachable types, impacted interfaces, '
         'suppressions), and each presentation option reaches its own context field. The verdict functions (unit verdict) are '
         'compiled against stubs that expose no presentation getter.',
         'Scoped to option wiring and the verdict predicates. That no other verdict-relevant code (comparison engine, filters) reads '
         'a presentation flag is not decided; --no-corpus-path / --no-architecture are handled in abidiff main outside this contract.',
         '5 C12'),
})

NA = {
 'C01': 'rests on reflexivity of ~40 mutually recursive equals() overloads, canonicalisation and DIE de-duplication over arbitrary type graphs (abg-ir.cc, abg-dwarf-reader.cc); outside the C++ subset CBMC 6.11 parses and not expressible as a contract on any reachable function',
 'C02': 'writer/reader pair over the whole IR and libxml2 trees; outside front-end reach (attribute escaping is claimed under C04)',
 'C03': 'needs sorted emission + reader builders over the IR; outside front-end reach',
 'C06': 'depends on DIE de-duplication, corpus sorting and equals(decl_base) ignoring locations over real IR; not reachable',
 'C10': 'relation between counters and listed entries spans apply_filters_and_compute_diff_stats and the reporters (maps of polymorphic diff nodes); not reachable',
 'C11': 'ensure_lookup_tables_populated with symbol re-lookup over corpus maps; not reachable, and the diff engine alone does not imply it',
 'C13': 'needs the invariant "every changed interface has a leaf change" over the diff graph; not expressible on reachable functions',
 'C16': 'build_function_decl/build_function_type construct IR from DIE trees; outside front-end reach',
 'C17': 'partition is a property of corpus::exported_decls_builder over whole-corpus maps; not reachable',
 'C19': 'ensure_lookup_tables_populated (edit scripts over symbol vectors + map re-lookup); not reachable',
 'C20': 'type_base::get_canonical_type_for / compare_types_during_canonicalization in abg-ir.cc; not reachable',
 'C21': 'needs equals()/hash/compute_diff over the IR; only combine_hashes is reachable and implies nothing alone',
 'C22': 'suppression evaluation and propagation over diff trees and IR; not reachable',
 'C23': 'function_suppression::suppresses_function and apply_supprs_to_added_removed_fns_vars over IR and maps; not reachable',
 'C26': 'gen_suppr_spec_from_headers (filesystem walk) + suppression propagation over diff trees; not reachable',
 'C29': 'perform_compat_check_in_normal_mode / maybe_drop_some_exported_decls over corpora; only the exit-bit lattice is reachable (C08)',
 'C31': 'quantifies over thread schedules; dfcc has no thread semantics (sequential ingredients are claimed under C32/C14)',
 'C35': 'whole-program memory-safety over abg-ir/abg-comparison ownership; reachable functions are covered with arbitrary-input obligations under C25/C33/C34',
 'C39': 'both directions run through the polymorphic property object graph (dynamic_pointer_cast over shared_ptr<property>) which the front end cannot take',
}

PENDING = 'planned (sequence-diff templates of abg-diff-utils.h under local contracts + bounded whole algorithm) but not built: see DESIGN.md section 5, C38'


def main():
    props = [json.loads(l) for l in open(os.path.join(VERIF, 'properties.jsonl'))]
    served = set()
    for p in glob.glob(os.path.join(VERIF, 'units', '*', 'unit.json')):
        u = json.load(open(p))
        for h in u['harnesses']:
            served.update(h.get('props', []))
    checks = []
    na = []
    for p in props:
        i = p['id']
        if i in CLAIMS and i in served:
            cat, text, note, ref = CLAIMS[i]
            checks.append({
                'property_id': i,
                'quick_cmd': 'python3 tools/check.py %s --tier quick' % i,
                'thorough_cmd': 'python3 tools/check.py %s --tier thorough' % i,
                'evidence_file': '/verif/evidence/%s.json' % i,
                'replay_cmd_template': 'python3 tools/check.py --replay {path}',
                'engine': 'cbmc-contracts',
                'level_claimed': {'category': cat, 'text': text, 'design_ref': 'DESIGN.md section ' + ref},
                'level_note': note,
                'technique': TECH,
            })
        else:
            na.append({'property_id': i, 'reason': NA.get(i, PENDING)})
    m = {
        'version': 1,
        'setup_cmd': 'python3 tools/setup.py',
        'hooks': {'guard': 'LIBABIGAIL_VERIF',
                  'enable': 'no hooks: contracts are sidecar files under /verif applied to text extracted from /repo on every run',
                  'baseline_off_cmd': 'make -C /repo -k check', 'source_commits': [], 'add_only': True},
        'engines': [{'name': 'cbmc-contracts', 'path': '/verif/tools/check.py',
                     'serves_properties': [c['property_id'] for c in checks],
                     'kind_free_text': 'extract real function text from /repo -> goto-cc (C++ front end, stub environment) -> '
                                       'goto-instrument --dfcc contract enforcement -> cbmc; native g++ replay of counterexamples'}],
        'checks': checks,
        'notes': 'exit 0 pass / 1 VIOLATION / 2 inconclusive (never with a VIOLATION line). See DESIGN.md.',
        'not_applicable': na,
    }
    json.dump(m, open(os.path.join(VERIF, 'MANIFEST.json'), 'w'), indent=1)
    print('claimed:', [c['property_id'] for c in checks])


if __name__ == '__main__':
    main()
