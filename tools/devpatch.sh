#!/bin/bash
# dev helper: run one unit (or a whole property check with -p) against a scratch copy of /repo's sources with a patch applied.
# usage: devpatch.sh <patch.diff> <unit> [harness]   |   devpatch.sh -p <patch.diff> <PROP>
set -e
M=/tmp/mutrepo.$$
mkdir -p $M
rsync -a --include='*/' --include='*.cc' --include='*.h' --include='*.hpp' --exclude='*' /repo/include /repo/src /repo/tools $M/
cp /repo/config.h $M/
cd /verif
if [ "$1" = "-p" ]; then
  patch -s -p1 -d $M < $2
  VERIF_REPO=$M python3 tools/check.py $3 || true
else
  patch -s -p1 -d $M < $1
  if [ -n "$3" ]; then VERIF_REPO=$M python3 tools/run_unit.py $2 --harness $3 || true; else VERIF_REPO=$M python3 tools/run_unit.py $2 || true; fi
fi
rm -rf $M
