#!/bin/bash
# dev helper: run one unit against a scratch copy of /repo's sources with a python-regex edit applied.
# usage: devmut.sh <file> <python-regex> <replacement> <unit> [harness]
set -e
M=/tmp/mutrepo
mkdir -p $M
rsync -a --delete --include='*/' --include='*.cc' --include='*.h' --include='*.hpp' --exclude='*' /repo/include /repo/src /repo/tools $M/ 
cp /repo/config.h $M/
python3 - "$M/$1" "$2" "$3" <<'PY'
import re,sys
p,pat,rep=sys.argv[1:4]
s=open(p).read()
n=len(re.findall(pat,s,flags=re.M))
if n!=1:
    print("pattern matches",n,"times"); sys.exit(3)
open(p,'w').write(re.sub(pat,rep,s,flags=re.M))
PY
cd /verif
if [ -n "$5" ]; then VERIF_REPO=$M python3 tools/run_unit.py $4 --harness $5; else VERIF_REPO=$M python3 tools/run_unit.py $4; fi
