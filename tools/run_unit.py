#!/usr/bin/env python3
"""Pipeline for one verification unit: extract -> compile -> (dfcc) instrument -> cbmc.

Verdict per harness: 'pass' | 'fail' | 'inconclusive'.
Inconclusive (timeouts, tool crashes, extraction/compile problems, vacuity-guard
failures) is never reported as a violation.
"""
import json
import os
import re
import resource
import shutil
import subprocess
import sys
import time

HERE = os.path.dirname(os.path.abspath(__file__))
VERIF = os.path.dirname(HERE)
sys.path.insert(0, HERE)
import extract as X  # noqa: E402

REPO = os.environ.get('VERIF_REPO', '/repo')
MEM_LIMIT = 10 * 1024 * 1024 * 1024
TIER = 'quick'

BASE_CHECKS = ['--bounds-check', '--pointer-check', '--div-by-zero-check',
               '--signed-overflow-check', '--pointer-overflow-check',
               '--undefined-shift-check']


class Inconclusive(Exception):
    pass


def _limits():
    resource.setrlimit(resource.RLIMIT_AS, (MEM_LIMIT, MEM_LIMIT))


def sh(cmd, cwd, timeout, log):
    t0 = time.time()
    try:
        p = subprocess.run(cmd, cwd=cwd, stdout=subprocess.PIPE, stderr=subprocess.STDOUT,
                           timeout=timeout, preexec_fn=_limits)
        out = p.stdout.decode(errors='replace')
        rc = p.returncode
    except subprocess.TimeoutExpired as e:
        out = (e.stdout or b'').decode(errors='replace') + '\n[TIMEOUT after %ss]' % timeout
        rc = -999
    with open(log, 'a') as f:
        f.write('$ ' + ' '.join(cmd) + '\n' + out + '\n[rc=%s, %.1fs]\n' % (rc, time.time() - t0))
    return rc, out


def config_defines():
    """-D set taken from /repo/config.h at run time (WITH_CTF etc.)."""
    defs = []
    try:
        for l in open(os.path.join(REPO, 'config.h')):
            m = re.match(r'#define\s+(WITH_\w+|HAVE_\w+)\s+(\S+)', l)
            if m:
                defs.append('-D%s=%s' % (m.group(1), m.group(2)))
    except OSError:
        pass
    return defs


def load_unit(name):
    d = os.path.join(VERIF, 'units', name)
    u = json.load(open(os.path.join(d, 'unit.json')))
    u['dir'] = d
    u['name'] = name
    return u


def prepare_unit(u, bdir):
    """Extract, rewrite, render and compile the C++ TU. Returns info for evidence."""
    os.makedirs(bdir, exist_ok=True)
    log = os.path.join(bdir, 'build.log')
    open(log, 'w').close()
    ex = {}
    try:
        for ent in u['extract']:
            e = X.extract_entity(REPO, ent)
            e['src_path'] = os.path.join(REPO, ent['file'])
            ex[e['id']] = e
        fired = X.apply_rewrites(ex, u.get('rewrites', []))
        for e in ex.values():
            for r in e.get('pre_rewrites') or []:
                fired.append(dict(r, scope=e['id']))
            for rf in e.get('rangefor') or []:
                fired.append({'id': 'rangefor-desugar', 'scope': e['id'], 'count': 1, 'why': 'range-based for over %s desugared per ISO C++11 [stmt.ranged] (iterator loop; the loop variable is a copy of *it)' % rf['var'], 'pattern': '', 'repl': ''})
            if e.get('wrapped_region_header'):
                fired.append({'id': 'wrap-region', 'scope': e['id'], 'count': 1, 'why': 'statement region wrapped into a function with the unit-supplied header', 'pattern': '', 'repl': e['wrapped_region_header']})
            if e.get('unroll'):
                fired.append({'id': 'unroll-loop', 'scope': e['id'], 'count': 1, 'why': 'loop replaced by %s verbatim copies of its body + unwinding assertion (bounded)' % e['unroll'], 'pattern': '', 'repl': ''})
        gens = u.get('templates', ['gen.cpp.in'])
        # loop-rule soundness guard: every local the loop assigns must be named in the HAVOC macro
        ttext = open(os.path.join(u['dir'], gens[0])).read()
        for e in ex.values():
            if e.get('kind') != 'loopfn' or e.get('unroll'):
                continue
            for gd in e.get('loop_guards') or [{'macro_prefix': e['macro_prefix'], 'assigned': e.get('loop_assigned_locals', [])}]:
                m = re.search(r'#define\s+%s_HAVOC\b((?:.*\\\n)*.*)' % re.escape(gd['macro_prefix']), ttext)
                hav = m.group(1) if m else ''
                # follow one level of macro indirection (e.g. #define LCC_HAVOC HAVOC_COMMON)
                for mm in re.findall(r'\b([A-Z][A-Z0-9_]{3,})\b', hav):
                    m2 = re.search(r'#define\s+%s\b((?:.*\\\n)*.*)' % re.escape(mm), ttext)
                    if m2 and mm != gd['macro_prefix'] + '_HAVOC':
                        hav += ' ' + m2.group(1)
                missing = [nm for nm in gd['assigned'] if not re.search(r'\b%s\b' % re.escape(nm), hav)]
                missing = [nm for nm in missing if nm not in u.get('loop_assigned_ok', []) and not nm.startswith('lc')]
                if missing:
                    raise X.ExtractError('loop contract of %s no longer applies: the loop assigns %s which the HAVOC macro %s_HAVOC '
                                         'does not havoc (loop-carried state outside the contract)' % (e['id'], ', '.join(missing), gd['macro_prefix']))
        # first template receives the entities; extra templates (e.g. second C++ TU) too
        X.render(os.path.join(u['dir'], gens[0]), ex, os.path.join(bdir, 'gen.cpp'))
    except X.ExtractError as e:
        raise Inconclusive('extraction: %s' % e)
    cmd = ['goto-cc', '-nostdinc', '-I', os.path.join(VERIF, 'vstd'), '-I', u['dir'], '-I', bdir,
           '-DVERIF_CBMC=1'] + config_defines() + \
          (u.get('cxx_defines_thorough', u.get('cxx_defines', [])) if TIER == 'thorough' else u.get('cxx_defines', [])) + \
          ['-c', 'gen.cpp', '-o', 'gen.gb']
    rc, out = sh(cmd, bdir, 300, log)
    if rc != 0:
        raise Inconclusive('C++ front end rejected the extracted text (unit %s):\n%s'
                           % (u['name'], out[-3000:]))
    info = {
        'entities': [{k: e[k] for k in ('id', 'file', 'kind', 'first_line', 'last_line', 'sha256')}
                     for e in ex.values()],
        'rewrites_fired': fired,
        'texts': {k: e['text'] for k, e in ex.items()},
    }
    return info


def _canary_targets(spec_text):
    return sorted(set(re.findall(r'\bCANARY_(\w+)\b', spec_text)))


def compile_spec(u, bdir, tag, canary_for, log):
    spec = open(os.path.join(u['dir'], 'spec.c')).read()
    defs = []
    for t in _canary_targets(spec):
        if t == canary_for:
            defs.append('-DCANARY_%s=__CPROVER_ensures(0)' % t if not t.startswith('h_')
                        else '-DCANARY_%s=__CPROVER_assert(0,"canary")' % t)
        else:
            defs.append('-DCANARY_%s=' % t)
    out = 'spec_%s.gb' % tag
    cmd = ['goto-cc', '-I', u['dir'], '-I', os.path.join(VERIF, 'vstd'), '-DVERIF_CBMC=1'] + defs + \
          (u.get('c_defines_thorough', u.get('c_defines', [])) if TIER == 'thorough' else u.get('c_defines', [])) + \
          ['-c', os.path.join(u['dir'], 'spec.c'), '-o', out]
    rc, o = sh(cmd, bdir, 120, log)
    if rc != 0:
        raise Inconclusive('spec.c does not compile (unit %s): %s' % (u['name'], o[-2000:]))
    return out


def canary_line(u, target):
    for i, l in enumerate(open(os.path.join(u['dir'], 'spec.c')).read().split('\n')):
        if re.search(r'\bCANARY_%s\b' % re.escape(target), l):
            return i + 1
    return None


def parse_cbmc_json(out):
    """Returns (results list, messages, status string)"""
    try:
        start = out.index('[')
        data = json.loads(out[start:out.rindex(']') + 1])
    except (ValueError, json.JSONDecodeError):
        return None, out[-2000:], 'unparsable'
    results = None
    status = None
    msgs = []
    for item in data:
        if 'result' in item:
            results = item['result']
        if 'cProverStatus' in item:
            status = item['cProverStatus']
        if 'messageText' in item:
            msgs.append(item['messageText'])
    return results, '\n'.join(msgs), status


def parse_stop_on_fail(out):
    """cbmc --stop-on-fail --json-ui prints one failed property (with trace) instead of a result
    list; returns an equivalent JSON text with a one-element result list, or None"""
    try:
        data = json.loads(out[out.index('['):out.rindex(']') + 1])
    except (ValueError, json.JSONDecodeError):
        return None
    for item in data:
        if item.get('status') == 'failed' and 'property' in item:
            sl = {}
            for st in reversed(item.get('trace', [])):
                if st.get('stepType') == 'failure' and st.get('sourceLocation'):
                    sl = st['sourceLocation']
                    break
            res = {'property': item['property'], 'description': item.get('description', ''), 'status': 'FAILURE',
                   'trace': item.get('trace', []), 'sourceLocation': sl}
            return json.dumps([{'messageText': 'fallback: --stop-on-fail after a timeout of the all-properties run',
                                'messageType': 'STATUS-MESSAGE'}, {'result': [res]}, {'cProverStatus': 'failure'}])
    return None


def run_cbmc(bdir, gb, h, tier, log, extra=None):
    flags = list(BASE_CHECKS)
    for f in h.get('no_flags', []):
        if f in flags:
            flags.remove(f)
    flags += h.get('cbmc_flags', [])
    if h.get('mode') == 'bounded':
        b = h.get('unwind_thorough') if tier == 'thorough' and h.get('unwind_thorough') else h.get('unwind')
        if b:
            flags += ['--unwind', str(b)]
        flags += ['--unwinding-assertions']
    else:
        # proof mode: any loop left without a contract must be detected
        flags += ['--unwinding-assertions']
        if h.get('unwind'):
            flags += ['--unwind', str(h['unwind'])]
    for us in h.get('unwindset', []):
        flags += ['--unwindset', us]
    be = h.get('backend', 'sat')
    if be == 'cvc5':
        flags += ['--cvc5']
    elif be == 'z3':
        flags += ['--z3']
    elif be == 'kissat':
        flags += ['--external-sat-solver', 'kissat']
    if extra:
        flags += extra
    to = h.get('timeout_thorough', 1800) if tier == 'thorough' else h.get('timeout', 300)
    cmd = ['cbmc', gb, '--json-ui', '--trace', '--object-bits', str(h.get('object_bits', 10))] + flags
    t0 = time.time()
    if h.get('shards'):
        rc, out = run_cbmc_sharded(bdir, gb, h, cmd, to, log)
    else:
        rc, out = sh(cmd, bdir, to, log)
    dt = time.time() - t0
    return rc, out, dt, cmd


def run_cbmc_sharded(bdir, gb, h, cmd, to, log):
    """Same verification problem, split by obligation: the property list is obtained with
    --show-properties and dealt round-robin to N cbmc processes run in parallel (each one checks
    only its own obligations with --property); the result lists are concatenated."""
    import concurrent.futures as cf
    rc, out = sh([c for c in cmd if c != '--trace'] + ['--show-properties'], bdir, 120, log + '.props')
    try:
        data = json.loads(out[out.index('['):out.rindex(']') + 1])
    except ValueError:
        return rc, out
    names = []
    for item in data:
        for pr in item.get('properties', []):
            names.append(pr['name'])
    n = int(h['shards'])
    shards = [names[k::n] for k in range(n)]
    shards = [x for x in shards if x]

    def one(k):
        c = list(cmd)
        for nm in shards[k]:
            c += ['--property', nm]
        return sh(c, bdir, to, '%s.shard%d' % (log, k))
    with cf.ThreadPoolExecutor(max_workers=len(shards)) as ex:
        outs = list(ex.map(one, range(len(shards))))
    merged = []
    msgs = []
    status = 'success'
    for rc_k, out_k in outs:
        if rc_k == -999:
            return -999, out_k
        res, m, st = parse_cbmc_json(out_k)
        if res is None:
            return rc_k, out_k
        merged += res
        msgs.append(m)
        if st != 'success':
            status = st if st else 'error'
    doc = [{'program': 'CBMC (sharded x%d)' % len(shards)}]
    for m in msgs[:1]:
        doc.append({'messageText': m, 'messageType': 'STATUS-MESSAGE'})
    doc.append({'result': merged})
    doc.append({'cProverStatus': status})
    text = json.dumps(doc)
    with open(log, 'a') as f:
        f.write('$ cbmc (sharded)\n' + text[:200000] + '\n[rc=0, sharded]\n')
    return 0, text


def run_harness(u, h, bdir, tier, unit_info):
    """Returns dict(status, obligations, failed[], wall_s, ...)."""
    global TIER
    TIER = tier
    name = h['name']
    log = os.path.join(bdir, name + '.log')
    open(log, 'w').close()
    res = {'unit': u['name'], 'harness': name, 'mode': h.get('mode', 'proof'),
           'enforce': h.get('enforce'), 'replace': h.get('replace', []),
           'backend': h.get('backend', 'sat'), 'log': log, 'functions': h.get('functions', []),
           'assumed': h.get('assumed', [])}
    t_start = time.time()
    try:
        target = h.get('enforce') or name
        variants = [('n', None)]
        if h.get('canary', True):
            variants.append(('c', target))
        outs = {}
        for tag, can in variants:
            if tag == 'c' and 'n' in outs and any(r.get('status') == 'FAILURE' for r in outs['n'][0]):
                # the vacuity guard matters for passing runs only; obligations already fail
                continue
            vtag = '%s_%s' % (name, tag)
            spec_gb = compile_spec(u, bdir, vtag, can, log)
            link = 'link_%s.gb' % vtag
            rc, o = sh(['goto-cc', '--function', name, 'gen.gb', spec_gb, '-o', link], bdir, 120, log)
            if rc != 0:
                raise Inconclusive('link failed: %s' % o[-2000:])
            final = link
            if h.get('enforce') or h.get('replace') or h.get('loops'):
                inst = 'inst_%s.gb' % vtag
                cmd = ['goto-instrument', '--dfcc', name]
                if h.get('enforce'):
                    cmd += ['--enforce-contract', h['enforce']]
                for r in h.get('replace', []):
                    cmd += ['--replace-call-with-contract', r]
                if h.get('loops'):
                    lf = make_loops_file(u, h, bdir, link, log)
                    cmd += ['--loop-contracts-file', lf, '--apply-loop-contracts']
                cmd += h.get('instrument_flags', [])
                cmd += [link, inst]
                rc, o = sh(cmd, bdir, 300, log)
                if rc != 0:
                    raise Inconclusive('goto-instrument failed: %s' % o[-2500:])
                final = inst
            extra = None
            rc, out, dt, cmd = run_cbmc(bdir, final, h, tier, log, extra)
            if rc == -999 and tag == 'n':
                # all-properties mode can hang on the instances left after a first failing property was
                # found; a single-counterexample run decides whether *some* obligation fails
                rc2, out2, dt2, cmd2 = run_cbmc(bdir, final, dict(h, shards=None, timeout=min(h.get('timeout', 300), 300)),
                                                'quick', log, ['--stop-on-fail'])
                sf = parse_stop_on_fail(out2) if rc2 != -999 else None
                if sf is None:
                    raise Inconclusive('cbmc timeout (%s variant)' % tag)
                out, dt, cmd = sf, dt2, cmd2
                rc = 0
            elif rc == -999:
                raise Inconclusive('cbmc timeout (%s variant)' % tag)
            results, msgs, status = parse_cbmc_json(out)
            if results is None:
                raise Inconclusive('cbmc produced no result list (rc=%s): %s' % (rc, msgs[-1500:]))
            if re.search(r'ignoring (forall|exists)', msgs):
                raise Inconclusive('back end ignored a quantifier')
            outs[tag] = (results, msgs, status, dt, cmd)
        results, msgs, status, dt, cmd = outs['n']
        res['checker_cmd'] = ' '.join(cmd)
        res['solver_wall_s'] = round(dt, 2)
        # vacuity guards
        nob = len(results)
        if nob == 0 or nob < h.get('min_obligations', 1):
            raise Inconclusive('vacuity guard: %d obligations generated, expected >= %d'
                               % (nob, h.get('min_obligations', 1)))
        # missing bodies
        allowed = set(h.get('assumed_no_body', [])) | set(u.get('assumed_no_body', []))
        for m in re.findall(r'no body for function (\S+)', msgs):
            m = m.strip("'\"")
            if m not in allowed and not m.startswith('__CPROVER'):
                raise Inconclusive('vacuity guard: no body for function %s (not on the assumed list)' % m)
        if h.get('loops'):
            nstep = sum(1 for r in results if 'loop_invariant_step' in r.get('property', '')
                        or 'loop invariant' in r.get('description', '').lower() and 'step' in r.get('description', '').lower())
            if nstep < h.get('expected_loop_steps', 1):
                raise Inconclusive('vacuity guard: %d loop_invariant_step obligations, expected >= %d '
                                   '(loop contract silently dropped?)' % (nstep, h.get('expected_loop_steps', 1)))
        for want in h.get('expect_descriptions', []):
            if not any(want in (r.get('description') or '') for r in results):
                raise Inconclusive('vacuity guard: no obligation "%s" was generated (loop rule not applied?)' % want)
        if 'c' in outs:
            cres = outs['c'][0]
            cl = canary_line(u, target)
            canary_failed = False
            for r in cres:
                if r.get('status') == 'FAILURE':
                    sl = r.get('sourceLocation', {})
                    d = r.get('description', '')
                    if d == 'canary' or 'ensures' in d.lower() or 'postcondition' in r.get('property', ''):
                        canary_failed = True
            if not canary_failed:
                raise Inconclusive('vacuity guard: canary (a deliberately false postcondition on %s) '
                                   'did not fail -> contract not enforced or preconditions unsatisfiable' % target)
            res['canary'] = 'failed-as-required'
        else:
            res['canary'] = 'none'
        obligations = []
        failed = []
        undecided = []
        for r in results:
            sl = r.get('sourceLocation', {}) or {}
            ob = {'property': r.get('property'), 'description': r.get('description'),
                  'status': r.get('status'), 'file': sl.get('file'), 'line': sl.get('line'),
                  'function': sl.get('function')}
            ob['line_text'] = source_line(sl.get('file'), sl.get('line'), bdir, u)
            obligations.append(ob)
            if r.get('status') == 'FAILURE':
                ob['trace_inputs'] = trace_inputs(r.get('trace', []))
                failed.append(ob)
            elif r.get('status') != 'SUCCESS':
                undecided.append(ob)
        res['obligations'] = obligations
        res['failed'] = failed
        res['status'] = 'fail' if failed else 'pass'
        res['undecided'] = len(undecided)
        if undecided and not failed:
            # CBMC reports UNKNOWN/ERROR for obligations it did not decide (e.g. behind a failed
            # unwinding assertion): that is not a violation
            raise Inconclusive('%d obligations left undecided by cbmc (first: %s)'
                               % (len(undecided), undecided[0]['property']))
        if status not in ('success', 'failure'):
            raise Inconclusive('cbmc status %s' % status)
    except Inconclusive as e:
        res['status'] = 'inconclusive'
        res['reason'] = str(e)
        res.setdefault('obligations', [])
        res.setdefault('failed', [])
    res['wall_s'] = round(time.time() - t_start, 2)
    return res


_line_cache = {}


def source_line(f, line, bdir, u):
    if not f or not line:
        return ''
    cands = [f, os.path.join(bdir, f), os.path.join(u['dir'], f)]
    for c in cands:
        if os.path.isfile(c):
            if c not in _line_cache:
                _line_cache[c] = open(c, errors='replace').read().split('\n')
            ls = _line_cache[c]
            i = int(line) - 1
            if 0 <= i < len(ls):
                return ' '.join(ls[i].split())
    return ''


def trace_inputs(trace):
    """last value assigned to each harness-level input (variables named in_* or g_*)."""
    vals = {}
    for st in trace:
        if st.get('stepType') != 'assignment':
            continue
        lhs = st.get('lhs', '')
        base = re.split(r'[\[\.]', lhs)[0]
        if not (base.startswith('in_') or base.startswith('g_') or base.startswith('gh_')):
            continue
        v = st.get('value', {})
        if 'data' in v:
            vals[lhs] = v['data']
        elif 'elements' in v or 'members' in v:
            continue
    return vals


def make_loops_file(u, h, bdir, link_gb, log):
    """loops file: unit's JSON with "symbols" resolved from the goto binary's symbol table.

    Source format (units/<u>/<loops>.json):
      {"functions":[{"function_regex": "...", "function_match": "substring of mangled name",
                     "loops":[{"loop_id":"0","invariants":"..","decreases":"..","assigns":"..",
                               "locals":["i","x"]}]}]}
    For each listed local the symbol table is searched for a symbol '<function>::...::<local>';
    it must be unique, otherwise the unit is inconclusive ("loop contract no longer applies").
    """
    src = json.load(open(os.path.join(u['dir'], h['loops'])))
    rc, out = sh(['goto-instrument', '--show-symbol-table', link_gb], bdir, 120, log + '.symtab')
    syms = re.findall(r'^Symbol\.*:\s*(\S.*)$', out, flags=re.M)
    fn_out = []
    for f in src['functions']:
        fm = f['function_match']
        fsyms = [s for s in syms if s.startswith(fm) or s == fm]
        fname = None
        for s in syms:
            if s == fm:
                fname = s
        if fname is None:
            cands = [s for s in syms if s.startswith(fm) and '::' not in s[len(fm):]]
            if len(cands) != 1:
                raise Inconclusive('loop contract: function %r resolves to %d symbols' % (fm, len(cands)))
            fname = cands[0]
        loops = []
        for lp in f['loops']:
            smap = []
            for loc in lp.get('locals', []):
                if isinstance(loc, list):
                    alias, locname = loc
                else:
                    alias = locname = loc
                c = [s for s in syms if s.startswith(fname + '::') and s.endswith('::' + locname)]
                if len(c) != 1:
                    raise Inconclusive('loop contract no longer applies: local %r of %s resolves to %d symbols %s'
                                       % (locname, fname, len(c), c[:4]))
                smap.append('%s,%s' % (alias, c[0]))
            for g in lp.get('globals', []):
                smap.append('%s,%s' % (g, g))
            d = {'loop_id': str(lp['loop_id']), 'invariants': lp['invariants']}
            if 'decreases' in lp:
                d['decreases'] = lp['decreases']
            if 'assigns' in lp:
                d['assigns'] = lp['assigns']
            d['symbol_map'] = ';'.join(smap)
            loops.append(d)
        fn_out.append({re.escape(fname).replace('\\ ', ' ').replace('\\_', '_').replace('\\:', ':'): loops})
    lf = os.path.join(bdir, '%s_loops.json' % h['name'])
    json.dump({'sources': ['gen.cpp'], 'functions': fn_out}, open(lf, 'w'), indent=1)
    return lf


if __name__ == '__main__':
    import argparse
    ap = argparse.ArgumentParser()
    ap.add_argument('unit')
    ap.add_argument('--harness')
    ap.add_argument('--tier', default='quick')
    a = ap.parse_args()
    u = load_unit(a.unit)
    bdir = os.path.join(VERIF, 'build', 'dev', a.unit)
    shutil.rmtree(bdir, ignore_errors=True)
    try:
        TIER = a.tier
        info = prepare_unit(u, bdir)
    except Inconclusive as e:
        print('INCONCLUSIVE', e)
        sys.exit(2)
    rc = 0
    import concurrent.futures as _cf
    hs = [h for h in u["harnesses"] if not a.harness or h["name"] == a.harness]
    with _cf.ThreadPoolExecutor(max_workers=8) as _ex:
        _res = list(_ex.map(lambda h: run_harness(u, h, bdir, a.tier, info), hs))
    for h, r in zip(hs, _res):
        print('%-28s %-12s ob=%d failed=%d %.1fs %s' % (h['name'], r['status'], len(r['obligations']),
                                                         len(r['failed']), r['wall_s'], r.get('reason', '')))
        for f in r['failed']:
            print('    FAILED', f['property'], '|', f['description'], '|', f['file'], f['line'], '|', f['line_text'])
            if f.get('trace_inputs'):
                print('      inputs', f['trace_inputs'])
        if r['status'] != 'pass':
            rc = 1
    sys.exit(rc)
