#!/bin/bash
# hygiene: compiles the native replay driver of every unit that has one against the text extracted by the last
# check run (a driver that no longer builds silently degrades a VIOLATION line to "no-failing-input-found").
cd "$(dirname "$0")/.."
rc=0
for u in $(ls units/*/replay.cc | cut -d/ -f2); do
  b=$(ls -d build/C*-quick/$u 2>/dev/null | head -1); [ -z "$b" ] && b=build/dev/$u
  [ -d "$b" ] || { echo "$u: no build directory (run its check first)"; continue; }
  flags=$(python3 -c "import json;u=json.load(open('units/$u/unit.json'));print(' '.join(u.get('replay_flags',[])))")
  libs=$(python3 -c "import json;u=json.load(open('units/$u/unit.json'));print(' '.join(u.get('replay_libs',[])))")
  defs=$(python3 -c "import sys; sys.path.insert(0,'tools'); import run_unit as R; print(' '.join(R.config_defines()))")
  if (cd $b && g++ -std=c++11 -O0 -w -fpermissive -DVERIF_NATIVE=1 -I /verif/vstd -I /verif/units/$u -I . -I /repo/include -I /repo/src -I /repo $defs $flags /verif/units/$u/replay.cc -o replay_selftest $libs >/dev/null 2>&1); then echo "$u: replay driver builds"; else echo "$u: replay driver DOES NOT BUILD"; rc=1; fi
done
exit $rc
