#!/bin/bash
# confirm a seeded change in a scratch worktree: demo passes unmodified, fails with the patch,
# the 20 baseline tests still pass with the patch.  usage: confirm_seed.sh <worktree> <seeddir> <demo>
WT=$1; SD=$2; DEMO=$3
TESTS="runtestabicompat runtestabidiff runtestabidiffexit runtestcanonicalizetypes.sh runtestcorediff runtestcxxcompat runtestdefaultsupprspy3.sh runtestdiffdwarf runtestdiffdwarfabixml runtestdiffpkg runtestelfhelpers runtestini runtestkmiwhitelist runtestlookupsyms runtestreadwrite runtestslowselfcompare.sh runtestsvg runtestsymtab runtestsymtabreader runtesttoolsutils"
cd $WT || exit 9
git checkout -- . ; make -j8 >/dev/null 2>&1
bash $SD/$DEMO $WT >/tmp/confirm-demo-clean.$$ 2>&1; R0=$?
git apply $SD/patch.diff || { echo "PATCH DOES NOT APPLY"; exit 9; }
make -j8 >/tmp/confirm-make.$$ 2>&1; RM=$?
bash $SD/$DEMO $WT >/tmp/confirm-demo-patched.$$ 2>&1; R1=$?
(cd tests && make check -j8 TESTS="$TESTS" >/tmp/confirm-tests.$$ 2>&1)
NP=$(grep -c "^PASS:" /tmp/confirm-tests.$$); NF=$(grep -c "^FAIL:" /tmp/confirm-tests.$$)
git checkout -- . ; make -j8 >/dev/null 2>&1
echo "seed=$SD demo_clean_rc=$R0 build_rc=$RM demo_patched_rc=$R1 tests_pass=$NP tests_fail=$NF"
tail -5 /tmp/confirm-demo-patched.$$
rm -f /tmp/confirm-*.$$
