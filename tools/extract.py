#!/usr/bin/env python3
"""Mechanical extractor: copies the *current* text of named entities out of /repo.

An entity is located by a regex on one of its lines (must match exactly once in the
file unless "occurrence" is given) and copied up to the matching brace (comment-,
string- and char-literal-aware matcher).  Nothing inside the copied text is edited here;
unit-declared rewrite rules are applied afterwards by apply_rewrites() and each must
fire exactly the declared number of times.

kinds
  func    a function definition: the matched line is the declarator line; leading lines
          (return type, 'static', 'template<..>') are taken by walking back until a blank
          line, a comment line, a preprocessor line or a line ending in ';' or '}'.
  block   enum/struct/class/namespace-scope braced block; like func, plus the trailing ';'.
  region  a statement region inside a function: from the line matching "start" to the line
          matching "end" (both inclusive, each must match exactly once; "end" is searched
          after "start").
  braced  region starting at the line matching "start" and ending at the brace that closes
          the first '{' found at or after it (e.g. a loop or if-statement body).
Any failure raises ExtractError -> the caller reports exit 2 (inconclusive), never a
violation.
"""
import hashlib
import os
import re


class ExtractError(Exception):
    pass


def _scan_to_matching_brace(text, pos):
    """text[pos] must be '{'. Returns index of the matching '}'."""
    assert text[pos] == '{'
    depth = 0
    i = pos
    n = len(text)
    while i < n:
        c = text[i]
        if c == '/' and i + 1 < n and text[i + 1] == '/':
            j = text.find('\n', i)
            i = n if j < 0 else j
            continue
        if c == '/' and i + 1 < n and text[i + 1] == '*':
            j = text.find('*/', i + 2)
            if j < 0:
                raise ExtractError('unterminated comment')
            i = j + 2
            continue
        if c == '"':
            i += 1
            while i < n and text[i] != '"':
                if text[i] == '\\':
                    i += 1
                i += 1
            i += 1
            continue
        if c == "'":
            i += 1
            while i < n and text[i] != "'":
                if text[i] == '\\':
                    i += 1
                i += 1
            i += 1
            continue
        if c == '{':
            depth += 1
        elif c == '}':
            depth -= 1
            if depth == 0:
                return i
        i += 1
    raise ExtractError('unbalanced braces')


def _find_open_brace(text, pos):
    """first '{' at or after pos, outside comments/strings and at paren depth 0."""
    i = pos
    n = len(text)
    par = 0
    while i < n:
        c = text[i]
        if c == '/' and i + 1 < n and text[i + 1] == '/':
            j = text.find('\n', i)
            i = n if j < 0 else j
            continue
        if c == '/' and i + 1 < n and text[i + 1] == '*':
            j = text.find('*/', i + 2)
            if j < 0:
                raise ExtractError('unterminated comment')
            i = j + 2
            continue
        if c == '"':
            i += 1
            while i < n and text[i] != '"':
                if text[i] == '\\':
                    i += 1
                i += 1
            i += 1
            continue
        if c == "'":
            i += 1
            while i < n and text[i] != "'":
                if text[i] == '\\':
                    i += 1
                i += 1
            i += 1
            continue
        if c == '(':
            par += 1
        elif c == ')':
            par -= 1
        elif c == ';' and par == 0:
            raise ExtractError('declaration, not a definition (hit ";" before "{")')
        elif c == '{' and par == 0:
            return i
        i += 1
    raise ExtractError('no opening brace')


def _match_lines(lines, rx, what, path, first=0, occurrence=None):
    r = re.compile(rx)
    hits = [k for k in range(first, len(lines)) if r.search(lines[k])]
    if occurrence is not None:
        if len(hits) < occurrence:
            raise ExtractError('%s: %s /%s/ has %d matches, need occurrence %d'
                               % (path, what, rx, len(hits), occurrence))
        return hits[occurrence - 1]
    if len(hits) != 1:
        raise ExtractError('%s: %s /%s/ matches %d lines (must be exactly 1)%s'
                           % (path, what, rx, len(hits),
                              '' if not hits else ' at ' + ','.join(str(h + 1) for h in hits[:6])))
    return hits[0]


def _lead_start(lines, k):
    j = k
    while j > 0:
        p = lines[j - 1].rstrip()
        s = p.strip()
        if not s or s.startswith('//') or s.startswith('#') or s.endswith('*/') \
           or s.endswith(';') or s.endswith('}') or s.endswith('{') or s.endswith(':'):
            break
        j -= 1
    return j


def extract_entity(repo, ent):
    if ent.get('kind') == 'funcs':
        return extract_many(repo, ent)
    path = os.path.join(repo, ent['file'])
    try:
        raw = open(path, encoding='utf-8', errors='replace').read()
    except OSError as e:
        raise ExtractError('cannot read %s: %s' % (path, e))
    lines = raw.split('\n')
    kind = ent.get('kind', 'func')
    k = _match_lines(lines, ent['start'], 'start', ent['file'],
                     occurrence=ent.get('occurrence'))
    if kind == 'region':
        e = _match_lines(lines, ent['end'], 'end', ent['file'], first=k,
                         occurrence=ent.get('end_occurrence', 1))
        a, b = k, e
    else:
        if kind in ('func', 'block'):
            lead = ent.get('lead', 'auto')
            a = _lead_start(lines, k) if lead == 'auto' else k - int(lead)
        else:
            a = k
        off = sum(len(l) + 1 for l in lines[:k])
        ob = _find_open_brace(raw, off)
        cb = _scan_to_matching_brace(raw, ob)
        b = raw.count('\n', 0, cb)
        tail = lines[b][cb - sum(len(l) + 1 for l in lines[:b]) + 1:]
        if kind == 'block' and not tail.strip().startswith(';'):
            # allow "};" only
            raise ExtractError('%s: block %s not terminated by "};"' % (ent['file'], ent['id']))
    text = '\n'.join(lines[a:b + 1]) + '\n'
    return {
        'id': ent['id'], 'file': ent['file'], 'kind': kind,
        'first_line': a + 1, 'last_line': b + 1,
        'sha256': hashlib.sha256(text.encode()).hexdigest(),
        'text': text,
    }


def extract_many(repo, ent):
    """kind 'funcs': every function definition whose declarator line matches "start"; at least
    ent["min"] of them must exist (must-fire), each is copied verbatim; '#line' directives keep
    the original line numbers."""
    path = os.path.join(repo, ent['file'])
    try:
        raw = open(path, encoding='utf-8', errors='replace').read()
    except OSError as e:
        raise ExtractError('cannot read %s: %s' % (path, e))
    lines = raw.split('\n')
    r = re.compile(ent['start'])
    hits = [k for k in range(len(lines)) if r.search(lines[k])]
    if len(hits) < ent.get('min', 1):
        raise ExtractError('%s: /%s/ matches %d definitions, need >= %d'
                           % (ent['file'], ent['start'], len(hits), ent.get('min', 1)))
    parts = []
    names = []
    for k in hits:
        a = _lead_start(lines, k)
        off = sum(len(l) + 1 for l in lines[:k])
        ob = _find_open_brace(raw, off)
        cb = _scan_to_matching_brace(raw, ob)
        b = raw.count('\n', 0, cb)
        parts.append('#line %d "%s"\n' % (a + 1, path) + '\n'.join(lines[a:b + 1]) + '\n')
        names.append(lines[k].strip())
    text = ''.join(parts)
    return {
        'id': ent['id'], 'file': ent['file'], 'kind': 'funcs',
        'first_line': hits[0] + 1, 'last_line': hits[-1] + 1, 'count': len(hits),
        'sha256': hashlib.sha256(text.encode()).hexdigest(),
        'text': text,
    }


def apply_rewrites(ex, rules):
    """rules: [{"id","scope"(entity id or "*"),"pattern","repl","count","why"}]"""
    fired = []
    for r in rules:
        total = 0
        for e in ex.values():
            if r.get('scope', '*') not in ('*', e['id']):
                continue
            new, n = re.subn(r['pattern'], r['repl'], e['text'], flags=re.M)
            total += n
            e['text'] = new
        if total != r['count']:
            raise ExtractError('rewrite rule %s fired %d times, must fire exactly %d'
                               % (r['id'], total, r['count']))
        fired.append({'id': r['id'], 'count': total, 'why': r.get('why', ''),
                      'pattern': r['pattern'], 'repl': r['repl']})
    return fired


def render(template_path, ex, out_path):
    """Replace lines '//@EXTRACT <id>' of the template by '#line' + extracted text."""
    out = []
    used = set()
    tlines = open(template_path).read().split('\n')
    for i, l in enumerate(tlines):
        m = re.match(r'\s*//@EXTRACT\s+(\S+)\s*$', l)
        if not m:
            out.append(l)
            continue
        eid = m.group(1)
        if eid not in ex:
            raise ExtractError('template refers to unknown entity %s' % eid)
        used.add(eid)
        e = ex[eid]
        out.append('#line %d "%s"' % (e['first_line'], e['src_path']))
        out.append(e['text'].rstrip('\n'))
        out.append('#line %d "%s"' % (i + 2, os.path.basename(template_path)))
    missing = set(ex) - used
    if missing:
        raise ExtractError('entities extracted but not placed in template: %s' % sorted(missing))
    open(out_path, 'w').write('\n'.join(out))


if __name__ == '__main__':
    import json
    import sys
    ent = json.loads(sys.argv[2])
    print(extract_entity(sys.argv[1], ent)['text'])
