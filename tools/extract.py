#!/usr/bin/env python3
"""Mechanical extractor: copies the *current* text of named entities out of /repo.

An entity is located by a regex on one of its lines (must match exactly once in the
file unless "occurrence" is given) and copied up to the matching brace (comment-,
string- and char-literal-aware matcher).  Nothing inside the copied text is edited here;
unit-declared rewrite rules are applied afterwards by apply_rewrites() and each must
fire exactly the declared number of times.

kinds
  func    a function definition: the matched line is the declarator line; leading lines
          (return type, 'static', 'template<..>') are taken by walking back until a blank
          line, a comment line, a preprocessor line or a line ending in ';' or '}'.
  block   enum/struct/class/namespace-scope braced block; like func, plus the trailing ';'.
  region  a statement region inside a function: from the line matching "start" to the line
          matching "end" (both inclusive, each must match exactly once; "end" is searched
          after "start").
  braced  region starting at the line matching "start" and ending at the brace that closes
          the first '{' found at or after it (e.g. a loop or if-statement body).
Any failure raises ExtractError -> the caller reports exit 2 (inconclusive), never a
violation.
"""
import hashlib
import os
import re


class ExtractError(Exception):
    pass


def _scan_to_matching_brace(text, pos):
    """text[pos] must be '{'. Returns index of the matching '}'."""
    assert text[pos] == '{'
    depth = 0
    i = pos
    n = len(text)
    while i < n:
        c = text[i]
        if c == '/' and i + 1 < n and text[i + 1] == '/':
            j = text.find('\n', i)
            i = n if j < 0 else j
            continue
        if c == '/' and i + 1 < n and text[i + 1] == '*':
            j = text.find('*/', i + 2)
            if j < 0:
                raise ExtractError('unterminated comment')
            i = j + 2
            continue
        if c == '"':
            i += 1
            while i < n and text[i] != '"':
                if text[i] == '\\':
                    i += 1
                i += 1
            i += 1
            continue
        if c == "'":
            i += 1
            while i < n and text[i] != "'":
                if text[i] == '\\':
                    i += 1
                i += 1
            i += 1
            continue
        if c == '{':
            depth += 1
        elif c == '}':
            depth -= 1
            if depth == 0:
                return i
        i += 1
    raise ExtractError('unbalanced braces')


def _find_open_brace(text, pos):
    """first '{' at or after pos, outside comments/strings and at paren depth 0."""
    i = pos
    n = len(text)
    par = 0
    while i < n:
        c = text[i]
        if c == '/' and i + 1 < n and text[i + 1] == '/':
            j = text.find('\n', i)
            i = n if j < 0 else j
            continue
        if c == '/' and i + 1 < n and text[i + 1] == '*':
            j = text.find('*/', i + 2)
            if j < 0:
                raise ExtractError('unterminated comment')
            i = j + 2
            continue
        if c == '"':
            i += 1
            while i < n and text[i] != '"':
                if text[i] == '\\':
                    i += 1
                i += 1
            i += 1
            continue
        if c == "'":
            i += 1
            while i < n and text[i] != "'":
                if text[i] == '\\':
                    i += 1
                i += 1
            i += 1
            continue
        if c == '(':
            par += 1
        elif c == ')':
            par -= 1
        elif c == ';' and par == 0:
            raise ExtractError('declaration, not a definition (hit ";" before "{")')
        elif c == '{' and par == 0:
            return i
        i += 1
    raise ExtractError('no opening brace')


def _match_lines(lines, rx, what, path, first=0, occurrence=None):
    r = re.compile(rx)
    hits = [k for k in range(first, len(lines)) if r.search(lines[k])]
    if occurrence is not None:
        if len(hits) < occurrence:
            raise ExtractError('%s: %s /%s/ has %d matches, need occurrence %d'
                               % (path, what, rx, len(hits), occurrence))
        return hits[occurrence - 1]
    if len(hits) != 1:
        raise ExtractError('%s: %s /%s/ matches %d lines (must be exactly 1)%s'
                           % (path, what, rx, len(hits),
                              '' if not hits else ' at ' + ','.join(str(h + 1) for h in hits[:6])))
    return hits[0]


def _lead_start(lines, k):
    j = k
    while j > 0:
        p = lines[j - 1].rstrip()
        s = p.strip()
        if not s or s.startswith('//') or s.startswith('#') or s.endswith('*/') \
           or s.endswith(';') or s.endswith('}') or s.endswith('{') or s.endswith(':'):
            break
        j -= 1
    return j


def extract_entity(repo, ent):
    if ent.get('kind') == 'funcs':
        return extract_many(repo, ent)
    if ent.get('kind') == 'loopfn':
        return extract_loopfn(repo, ent)
    path = os.path.join(repo, ent['file'])
    try:
        raw = open(path, encoding='utf-8', errors='replace').read()
    except OSError as e:
        raise ExtractError('cannot read %s: %s' % (path, e))
    lines = raw.split('\n')
    kind = ent.get('kind', 'func')
    k = _match_lines(lines, ent['start'], 'start', ent['file'],
                     occurrence=ent.get('occurrence'))
    if kind == 'region':
        e = _match_lines(lines, ent['end'], 'end', ent['file'], first=k,
                         occurrence=ent.get('end_occurrence', 1))
        a, b = k, e + int(ent.get('end_offset', 0))
    else:
        if kind in ('func', 'block'):
            lead = ent.get('lead', 'auto')
            a = _lead_start(lines, k) if lead == 'auto' else k - int(lead)
        else:
            a = k
        off = sum(len(l) + 1 for l in lines[:k])
        ob = _find_open_brace(raw, off)
        cb = _scan_to_matching_brace(raw, ob)
        b = raw.count('\n', 0, cb)
        tail = lines[b][cb - sum(len(l) + 1 for l in lines[:b]) + 1:]
        if kind == 'block' and not tail.strip().startswith(';'):
            # allow "};" only
            raise ExtractError('%s: block %s not terminated by "};"' % (ent['file'], ent['id']))
    text = '\n'.join(lines[a:b + 1]) + '\n'
    return {
        'id': ent['id'], 'file': ent['file'], 'kind': kind,
        'first_line': a + 1, 'last_line': b + 1,
        'sha256': hashlib.sha256(text.encode()).hexdigest(),
        'text': text,
    }


def extract_many(repo, ent):
    """kind 'funcs': every function definition whose declarator line matches "start"; at least
    ent["min"] of them must exist (must-fire), each is copied verbatim; '#line' directives keep
    the original line numbers."""
    path = os.path.join(repo, ent['file'])
    try:
        raw = open(path, encoding='utf-8', errors='replace').read()
    except OSError as e:
        raise ExtractError('cannot read %s: %s' % (path, e))
    lines = raw.split('\n')
    r = re.compile(ent['start'])
    hits = [k for k in range(len(lines)) if r.search(lines[k])]
    if len(hits) < ent.get('min', 1):
        raise ExtractError('%s: /%s/ matches %d definitions, need >= %d'
                           % (ent['file'], ent['start'], len(hits), ent.get('min', 1)))
    parts = []
    names = []
    for k in hits:
        a = _lead_start(lines, k)
        off = sum(len(l) + 1 for l in lines[:k])
        ob = _find_open_brace(raw, off)
        cb = _scan_to_matching_brace(raw, ob)
        b = raw.count('\n', 0, cb)
        parts.append('#line %d "%s"\n' % (a + 1, path) + '\n'.join(lines[a:b + 1]) + '\n')
        names.append(lines[k].strip())
    text = ''.join(parts)
    return {
        'id': ent['id'], 'file': ent['file'], 'kind': 'funcs',
        'first_line': hits[0] + 1, 'last_line': hits[-1] + 1, 'count': len(hits),
        'sha256': hashlib.sha256(text.encode()).hexdigest(),
        'text': text,
    }


def apply_rewrites(ex, rules):
    """rules: [{"id","scope"(entity id or "*"),"pattern","repl","count","why"}]"""
    fired = []
    for r in rules:
        total = 0
        for e in ex.values():
            if r.get('scope', '*') not in ('*', e['id']):
                continue
            new, n = re.subn(r['pattern'], r['repl'], e['text'], flags=re.M)
            total += n
            e['text'] = new
        lo, hi = (r['count'], r['count']) if not isinstance(r['count'], list) else r['count']
        if not lo <= total <= hi:
            raise ExtractError('rewrite rule %s fired %d times, must fire %s times'
                               % (r['id'], total, 'exactly %d' % lo if lo == hi else 'between %d and %d' % (lo, hi)))
        fired.append({'id': r['id'], 'count': total, 'why': r.get('why', ''),
                      'pattern': r['pattern'], 'repl': r['repl']})
    return fired


def render(template_path, ex, out_path):
    """Replace lines '//@EXTRACT <id>' of the template by '#line' + extracted text."""
    out = []
    used = set()
    tlines = open(template_path).read().split('\n')
    for i, l in enumerate(tlines):
        m = re.match(r'\s*//@EXTRACT\s+(\S+)\s*$', l)
        if not m:
            out.append(l)
            continue
        eid = m.group(1)
        if eid not in ex:
            raise ExtractError('template refers to unknown entity %s' % eid)
        used.add(eid)
        e = ex[eid]
        if not e.get('no_line_directive'):
            out.append('#line %d "%s"' % (e['first_line'], e['src_path']))
        out.append(e['text'].rstrip('\n'))
        out.append('#line %d "%s"' % (i + 2, os.path.basename(template_path)))
    missing = set(ex) - used
    if missing:
        raise ExtractError('entities extracted but not placed in template: %s' % sorted(missing))
    open(out_path, 'w').write('\n'.join(out))


if __name__ == '__main__':
    import json
    import sys
    ent = json.loads(sys.argv[2])
    print(extract_entity(sys.argv[1], ent)['text'])


# ---------------------------------------------------------------------------------------------
# Loop-rule generator (kind "loopfn").
#
# CBMC's external loop-contract file cannot name the locals of a C++ function with more than one
# parameter (the symbol map is comma-separated and so are C++ function identifiers), so the
# classic loop rule is generated here instead.  The function text is cut, mechanically, into
#     HEADER { PRE  for (INIT; COND; INCR) BODY  POST }
# (or do BODY while (COND); / while (COND) BODY) and re-assembled, every piece verbatim, as
#
#     HEADER__lc {
#       PRE
#       { INIT;
#         if (gh_lc_phase == 0) { assert(LC_INV) [base case]; assume(false); }
#         LC_HAVOC; assume(LC_INV);                       // an arbitrary iteration
#         if (COND) { snapshot LC_DECR; BODY' lc_continue: INCR;
#                     assert(LC_INV) [step]; assert(LC_DECR decreased); assume(false); }
#         lc_break: ; }
#       POST                                              // runs from  LC_INV && !COND  (or a break)
#     }
#
# BODY' is BODY with 'continue;' / 'break;' that belong to this loop turned into gotos.
# LC_INV, LC_HAVOC, LC_DECR and LC_FRAME_* are macros supplied by the unit (sidecar contract).
# The frame is checked too: every local named in LC_FRAME must be unchanged by one iteration.

def _skip_ws_comments(t, i):
    n = len(t)
    while i < n:
        if t[i].isspace():
            i += 1
        elif t.startswith('//', i):
            j = t.find('\n', i)
            i = n if j < 0 else j + 1
        elif t.startswith('/*', i):
            i = t.index('*/', i) + 2
        else:
            break
    return i


def _match_paren(t, i):
    assert t[i] == '('
    d = 0
    n = len(t)
    while i < n:
        c = t[i]
        if c == '"' or c == "'":
            q = c
            i += 1
            while t[i] != q:
                if t[i] == '\\':
                    i += 1
                i += 1
        elif t.startswith('//', i):
            i = t.index('\n', i)
        elif t.startswith('/*', i):
            i = t.index('*/', i) + 1
        elif c == '(':
            d += 1
        elif c == ')':
            d -= 1
            if d == 0:
                return i
        i += 1
    raise ExtractError('unbalanced parentheses')


def _split_top(t, sep=';'):
    parts, d, cur = [], 0, ''
    for c in t:
        if c in '([{':
            d += 1
        elif c in ')]}':
            d -= 1
        if c == sep and d == 0:
            parts.append(cur)
            cur = ''
        else:
            cur += c
    parts.append(cur)
    return parts


def _statement_end(t, i):
    """index just past the statement starting at t[i] (block or simple statement)."""
    i = _skip_ws_comments(t, i)
    if t[i] == '{':
        return _scan_to_matching_brace(t, i) + 1
    m = re.match(r'(switch|if|for|while|do|else)\b', t[i:])
    if m:
        k = m.group(1)
        j = _skip_ws_comments(t, i + len(k))
        if k == 'do':
            e = _statement_end(t, j)
            j = _skip_ws_comments(t, e)
            if not t.startswith('while', j):
                raise ExtractError('do without while')
            q = _match_paren(t, t.index('(', j))
            return t.index(';', q) + 1
        if k == 'else':
            return _statement_end(t, j)
        if t[j] != '(':
            raise ExtractError('%s without (' % k)
        q = _match_paren(t, j)
        e = _statement_end(t, q + 1)
        if k == 'if':
            j2 = _skip_ws_comments(t, e)
            if re.match(r'else\b', t[j2:]):
                return _statement_end(t, j2)
        return e
    d = 0
    while True:
        c = t[i]
        if c in '([{':
            d += 1
        elif c in ')]}':
            d -= 1
        elif c == ';' and d == 0:
            return i + 1
        i += 1


def _rewrite_jumps(body, sfx=''):
    """continue;/break; of *this* loop -> gotos; nested loops and switches are left alone."""
    out, i, n = '', 0, len(body)
    kw = re.compile(r'\b(for|while|switch|do|continue|break)\b')
    while i < n:
        m = kw.search(body, i)
        if not m:
            out += body[i:]
            break
        # skip keywords inside comments/strings: cheap check on the line prefix
        line_start = body.rfind('\n', 0, m.start()) + 1
        if '//' in body[line_start:m.start()]:
            out += body[i:m.end()]
            i = m.end()
            continue
        k = m.group(1)
        if k in ('continue', 'break'):
            j = _skip_ws_comments(body, m.end())
            if body[j] != ';':
                raise ExtractError('unexpected token after %s' % k)
            out += body[i:m.start()] + ('{lc_broke = 1; goto lc_break%s;}' % sfx if k == 'break' else 'goto lc_continue%s;' % sfx)
            i = j + 1
        elif k == 'do':
            e = _statement_end(body, m.end())
            j = _skip_ws_comments(body, e)
            if not body.startswith('while', j):
                raise ExtractError('do without while')
            p = body.index('(', j)
            q = _match_paren(body, p)
            e2 = body.index(';', q) + 1
            out += body[i:e2]
            i = e2
        else:
            p = _skip_ws_comments(body, m.end())
            if body[p] != '(':
                out += body[i:m.end()]
                i = m.end()
                continue
            q = _match_paren(body, p)
            e = _statement_end(body, q + 1)
            out += body[i:e]
            i = e
    return out


def _strip_comments(t):
    t = re.sub(r'//[^\n]*', '', t)
    t = re.sub(r'/\*[\s\S]*?\*/', '', t)
    t = re.sub(r'"(?:\\.|[^"\\])*"', '""', t)
    return t


def extract_loopfn(repo, ent):
    if ent.get('_text') is not None:
        # second pass over already generated text (an enclosing loop of the one handled first)
        f = {'text': ent['_text'], 'first_line': ent['_first_line'], 'last_line': ent['_last_line'], 'sha256': ent['_sha256']}
    elif ent.get('header'):
        # a statement region of a larger function, wrapped (mechanically) into a function of its own:
        # "header" is supplied by the unit, the body is the verbatim region
        if ent.get('region_braced'):
            f = extract_entity(repo, dict(ent, kind='braced', start=ent['region_start']))
        else:
            f = extract_entity(repo, dict(ent, kind='region', start=ent['region_start'], end=ent['region_end']))
        f['text'] = ent['header'] + '\n{\n' + f['text'] + ent.get('footer', '') + '}\n'
        f['first_line'] -= 2
    else:
        f = extract_entity(repo, dict(ent, kind='func'))
    text = f['text']
    for rf in ([] if ent.get('_text') is not None else ent.get('rangefor', [])):
        # desugar  for (const auto& VAR : EXPR) STMT  as ISO C++11 [stmt.ranged] defines it; STMT is located with
        # the statement scanner, so the rewrite does not depend on the shape of the body
        m = re.search(r'for \(const auto& %s : ([^\n]*?)\)\s*\n' % re.escape(rf['var']), text)
        if not m or len(re.findall(r'for \(const auto& %s : ' % re.escape(rf['var']), text)) != 1:
            raise ExtractError('range-for over %s not found exactly once' % rf['var'])
        se = _statement_end(text, m.end())
        it = 'lc_it_' + rf['var']
        text = (text[:m.start()] + 'for (%s %s = (%s).begin(); %s != (%s).end(); ++%s)\n{ const %s %s = *%s;\n'
                % (rf['iter_type'], it, m.group(1), it, m.group(1), it, rf['type'], rf['var'], it)
                + text[m.end():se] + '\n}' + text[se:])
    for r in ([] if ent.get('_text') is not None else ent.get('pre_rewrites', [])):
        text, n = re.subn(r['pattern'], r['repl'], text, flags=re.M)
        lo, hi = (r['count'], r['count']) if not isinstance(r['count'], list) else r['count']
        if not lo <= n <= hi:
            raise ExtractError('pre-rewrite %s fired %d times, must fire %s times' % (r['id'], n, r['count']))
    ob = _find_open_brace(text, text.index(re.search(ent['start'], text, flags=re.M).group(0)) if not (ent.get('header') and ent.get('_text') is None) else 0)
    header = text[:ob]
    inner = text[ob + 1:text.rindex('}')]
    hits = [m for m in re.finditer(ent['loop_start'], inner, flags=re.M)]
    occ = ent.get('loop_occurrence')
    if occ is None and len(hits) != 1 or occ is not None and len(hits) < occ:
        raise ExtractError('%s: loop_start /%s/ matches %d times in %s'
                           % (ent['file'], ent['loop_start'], len(hits), ent['id']))
    ls = hits[(occ or 1) - 1].start()
    mkw = re.compile(r'\b(for|while|do)\b').search(inner, ls)
    if not mkw:
        raise ExtractError('no loop keyword at loop_start')
    k = mkw.group(1)
    ls = mkw.start()
    init = incr = ''
    if k in ('for', 'while'):
        p = _skip_ws_comments(inner, mkw.end())
        q = _match_paren(inner, p)
        hdr = inner[p + 1:q]
        if k == 'for':
            parts = _split_top(hdr)
            if len(parts) != 3:
                raise ExtractError('for header does not have three parts')
            init, cond, incr = parts
            if not cond.strip():
                cond = ' true '      # for (;;)
        else:
            cond = hdr
        be = _statement_end(inner, q + 1)
        body = inner[q + 1:be]
        le = be
    else:
        be = _statement_end(inner, mkw.end())
        body = inner[mkw.end():be]
        j = _skip_ws_comments(inner, be)
        if not inner.startswith('while', j):
            raise ExtractError('do without while')
        p = inner.index('(', j)
        q = _match_paren(inner, p)
        cond = inner[p + 1:q]
        le = inner.index(';', q) + 1
    pre, post = inner[:ls], inner[le:]
    P = ent.get('macro_prefix', 'LC')
    sfx = '' if P == 'LC' else '_' + P
    body2 = _rewrite_jumps(body, sfx)
    name = ent['name']
    name_rx = r'(?<![\w])%s(?![\w])' % re.escape(name)
    if ent.get('_text') is not None:
        header2 = header           # already renamed by the first pass
    else:
        if len(re.findall(name_rx, header)) != 1:
            raise ExtractError('function name %s not found exactly once in its header' % name)
        header2 = re.sub(name_rx, lambda m: name + '__lc', header)
    PH = ent.get('phase_var', 'gh_lc_phase')
    P = ent.get('macro_prefix', 'LC')
    line0 = f['first_line']
    src = os.path.join(repo, ent['file'])

    def ln(off_text):
        if ent.get('_text') is not None:
            return ''          # the pieces carry the #line directives of the first pass
        return '#line %d "%s"\n' % (line0 + text[:text.index(off_text)].count('\n') if off_text in text else line0, src)
    g = []
    g.append(ln(header) + header2 + '{\n')
    g.append(ln(pre) if pre.strip() else '')
    g.append(pre + '\n')
    g.append('  { // loop scope (generated)\n    int lc_broke = 0;\n')
    K = ent.get('unroll')
    if K:
        # bounded alternative: the loop is unrolled K times, each copy verbatim, followed by an
        # unwinding assertion (a harness using this is BOUNDED by construction)
        if init.strip():
            g.append(ln(init) + '    ' + init.strip() + ';\n')
        for c in range(1, int(K) + 1):
            tag = '%s_u%d' % (sfx, c)
            b_c = _rewrite_jumps(body, tag).replace('goto lc_break%s;' % tag, 'goto lc_break%s;' % sfx)
            if k != 'do':
                g.append(ln(cond) + '    if (!(' + cond.strip() + ')) goto lc_break%s;\n' % sfx)
            g.append('    {\n' + ln(body) + b_c + '\n    lc_continue%s: ;\n' % tag)
            if incr.strip():
                g.append(ln(incr) + '      ' + incr.strip() + ';\n')
            g.append('    }\n')
            if k == 'do':
                g.append(ln(cond) + '    if (!(' + cond.strip() + ')) goto lc_break%s;\n' % sfx)
        if k == 'do':
            g.append('    __CPROVER_assert(0, "unwinding assertion: loop needs more than %d iterations"); __CPROVER_assume(0);\n' % int(K))
        else:
            g.append('    { bool lc_more = (' + cond.strip() + '); __CPROVER_assert(!lc_more, "unwinding assertion: loop needs more than %d iterations"); __CPROVER_assume(!lc_more); }\n' % int(K))
    elif k == 'do':
        g.append('    %s_AT_ENTRY;\n' % P)
        g.append('    if (%s == 0) { __CPROVER_assert(%s_INV, "loop invariant holds on entry (base case)"); __CPROVER_assume(0); }\n' % (PH, P))
        g.append('    %s_HAVOC; __CPROVER_assume(%s_INV);\n' % (P, P))
        g.append('    { %s_FRAME_SNAPSHOT; unsigned long lc_decr_before = (%s_DECR);\n' % (P, P))
        g.append(ln(body) + body2 + '\n')
        g.append('    lc_continue%s: ;\n' % sfx)
        g.append(ln(cond) + '    if (' + cond + ')\n')
        g.append('      { __CPROVER_assert(%s_INV, "loop invariant is preserved (inductive step)");\n' % P)
        g.append('        __CPROVER_assert((%s_DECR) < lc_decr_before, "loop variant decreases");\n' % P)
        g.append('        __CPROVER_assert(%s_FRAME_UNCHANGED, "loop frame: nothing outside the loop assigns clause changed");\n' % P)
        g.append('        __CPROVER_assume(0); }\n')
        g.append('    }\n')
    else:
        if init.strip():
            g.append(ln(init) + '    ' + init.strip() + ';\n')
        g.append('    %s_AT_ENTRY;\n' % P)
        g.append('    if (%s == 0) { __CPROVER_assert(%s_INV, "loop invariant holds on entry (base case)"); __CPROVER_assume(0); }\n' % (PH, P))
        g.append('    %s_HAVOC; __CPROVER_assume(%s_INV);\n' % (P, P))
        g.append('    %s_FRAME_SNAPSHOT; unsigned long lc_decr_before = (%s_DECR); // before COND: it may have side effects\n' % (P, P))
        g.append(ln(cond) + '    if (' + cond.strip() + ')\n')
        g.append('      {\n')
        g.append(ln(body) + body2 + '\n')
        g.append('      lc_continue%s: ;\n' % sfx)
        if incr.strip():
            g.append(ln(incr) + '      ' + incr.strip() + ';\n')
        g.append('        __CPROVER_assert(%s_INV, "loop invariant is preserved (inductive step)");\n' % P)
        if not ent.get('no_decreases'):
            g.append('        __CPROVER_assert((%s_DECR) < lc_decr_before, "loop variant decreases");\n' % P)
        g.append('        __CPROVER_assert(%s_FRAME_UNCHANGED, "loop frame: nothing outside the loop assigns clause changed");\n' % P)
        g.append('        __CPROVER_assume(0);\n      }\n')
    g.append('    lc_break%s: ;\n    %s;\n  }\n' % (sfx, '((void) lc_broke)' if K else P + '_AT_EXIT'))
    g.append(ln(post) if post.strip() else '')
    g.append(post + '\n}\n')
    gen = ''.join(g)
    # which locals/parameters does the loop assign?  (used by run_unit to check that the sidecar
    # HAVOC macro covers them: a loop-carried variable that is not havocked would make the rule unsound)
    decl_rx = re.compile(r'(?:^|[;{}(,])\s*(?:const\s+)?[A-Za-z_][\w:<>,\s\*&]*?[\s\*&]([A-Za-z_]\w*)\s*(?=[=;,)\[(])', re.M)
    cands = set(m.group(1) for m in decl_rx.finditer(header + ';' + pre + ';' + init + ';'))
    cands -= set(['return', 'if', 'else', 'for', 'while', 'do', 'const', 'static', 'unsigned', 'int', 'char', 'bool', 'long'])
    scan = _strip_comments(body + ';' + incr + ';' + cond)
    assigned = []
    for nm in sorted(cands):
        q = re.escape(nm)
        if re.search(r'(?<![\w.>])%s\s*(?:\[[^\]]*\]\s*)?(?:=(?!=)|\+=|-=|\*=|/=|%%=|\|=|&=|\^=|<<=|>>=|\+\+|--)' % q, scan) \
           or re.search(r'(?:\+\+|--)\s*%s\b' % q, scan) \
           or re.search(r'(?<![\w.>])%s\s*(?:\.|->)\s*(?:push_back|clear|insert|erase|reset|swap|pop_back|append|assign|resize)\b' % q, scan) \
           or re.search(r'(?<![\w&])&\s*%s\b(?!\s*(?:\.|->|\[))' % q, scan):
            assigned.append(nm)
    pieces = {'header': header, 'pre': pre, 'init': init, 'cond': cond, 'incr': incr, 'body': body, 'post': post}
    if ''.join([header, '{', pre]) not in text:
        raise ExtractError('internal: split does not reassemble')
    guards = list(ent.get('_guards', [])) + ([] if ent.get('unroll') else [{'macro_prefix': P, 'assigned': assigned}])
    if ent.get('outer_loop'):
        o = ent['outer_loop']
        return extract_loopfn(repo, dict(o, id=ent['id'], file=ent['file'], name=name, start=re.escape(name + '__lc'),
                                         _text=gen, _first_line=f['first_line'], _last_line=f['last_line'], _sha256=f['sha256'],
                                         _guards=guards, _pre=ent.get('pre_rewrites', []), header=ent.get('header')))
    return {
        'id': ent['id'], 'file': ent['file'], 'kind': 'loopfn', 'loop_guards': guards,
        'first_line': f['first_line'], 'last_line': f['last_line'],
        'sha256': f['sha256'], 'text': gen, 'no_line_directive': True,
        'rangefor': ent.get('rangefor', []),
        'pre_rewrites': [{'id': r['id'], 'count': r['count'], 'pattern': r['pattern'], 'repl': r['repl'], 'why': r.get('why', '')} for r in ent.get('pre_rewrites', [])],
        'wrapped_region_header': ent.get('header'), 'unroll': ent.get('unroll'),
        'loop_assigned_locals': assigned, 'macro_prefix': P,
        'loop_kind': k, 'pieces_sha256': {p: hashlib.sha256(v.encode()).hexdigest()[:16] for p, v in pieces.items()},
    }
