#!/bin/bash
# creates a scratch git worktree of /repo at /tmp/wt-<name>, with the generated autotools files
# copied in and ./configure run (not built).  Remove with: git -C /repo worktree remove --force /tmp/wt-<name>
set -e
W=/tmp/wt-$1
git -C /repo worktree add --detach $W HEAD >/dev/null 2>&1
cd $W
for f in configure aclocal.m4 config.h.in ltmain.sh install-sh; do [ -e /repo/$f ] && cp -a /repo/$f . ; done
cp -a /repo/build-aux . 2>/dev/null || true
(cd /repo && find . -name Makefile.in -not -path "./.git/*") | while read f; do cp /repo/$f $W/$f; done
./configure >/tmp/wt-$1-configure.log 2>&1
echo $W ready
