#!/bin/bash
# runs every kept seeded change against the check of its property (on a scratch copy of /repo's
# sources with the patch applied) and reports whether a VIOLATION is raised.
# usage: seed_regress.sh [seed-name ...]
cd "$(dirname "$0")/.."
seeds="$@"; [ -z "$seeds" ] && seeds=$(ls seeded | grep -v "^_")
for s in $seeds; do
  prop=$(python3 -c "import json;print(json.load(open('seeded/$s/meta.json'))['property'])")
  M=/tmp/seedreg.$$.$s; mkdir -p $M
  rsync -a --include='*/' --include='*.cc' --include='*.h' --include='*.hpp' --exclude='*' /repo/include /repo/src /repo/tools $M/
  cp /repo/config.h $M/
  if ! patch -s -p1 -d $M < seeded/$s/patch.diff >/dev/null 2>&1; then echo "$s $prop PATCH-DOES-NOT-APPLY"; rm -rf $M; continue; fi
  out=$(VERIF_REPO=$M python3 tools/check.py $prop --tier quick 2>&1); rc=$?
  nv=$(echo "$out" | grep -c "^VIOLATION")
  first=$(echo "$out" | grep "^FAILED-OBLIGATION" | head -1 | cut -c1-160)
  echo "$s $prop exit=$rc violations=$nv :: $first"
  rm -rf $M
done
